"""Per-property specification of which harnesses exist, in which tier/profile they run, which
failed-check descriptions are *allowed* (panics the property itself permits), and the text that
goes into the evidence (functions encoded, bounds, assumptions, stubs).

Harness names are discovered from Kani's own metadata after codegen (macro-generated harnesses
included); rules are matched (first match wins, regex `search` on the harness' pretty name) to
attach attributes.  A harness matched by no rule runs in the quick tier with default settings.
"""

DEFAULTS = {
    "tier": "quick",            # quick harnesses also run in the thorough tier
    "profiles": ["debug"],      # which builds of the harness crate run it
    "allow": [],                # regexes of failed-check descriptions the property permits
    "flags": [],                # extra cargo-kani flags
    "timeout": None,            # seconds; default per tier
    "mem_gb": 24,
    "expect": "pass",           # "fail": positive control, must be refuted (vacuity / sensitivity witness)
    "bounds": None,
    "weight": 1,                # rough number of cores/GBs the solver needs (pool scheduling)
}


class Prop:
    def __init__(self, pid, module, feature, functions, bounds, outside, assumptions=(), stubs=(),
                 rules=(), runs=None, design_ref="", trusted=(), claim="", note="", extra_modules=(), extra_engines=()):
        self.id = pid
        self.module = module
        self.feature = feature
        self.functions = list(functions)
        self.bounds = bounds
        self.outside = outside
        self.assumptions = list(assumptions)
        self.stubs = list(stubs)
        self.rules = list(rules)
        # runs: list of (crate, profile, [features])
        self.runs = runs or [("harness", "debug", [feature])]
        self.design_ref = design_ref
        self.trusted = list(trusted)
        self.claim = claim
        self.extra_modules = list(extra_modules)
        self.extra_engines = list(extra_engines)
        self.note = note or ("Trusted: Kani's MIR->goto translation, CBMC's bit-precise semantics and SAT back end, the "
                             "harness oracle. Bounds: " + bounds + ". Outside the claim: " + outside)

    def attrs_for(self, name):
        import re
        a = dict(DEFAULTS)
        for r in self.rules:
            if re.search(r["match"], name):
                for k, v in r.items():
                    if k != "match":
                        a[k] = v
                break
        return a


PROPS = {}

NOT_APPLICABLE = {
    "C09": "dasp_graph::process is a loop around petgraph's DfsPostOrder over Vec-backed containers: measured, not even "
           "a concrete 5-node traversal (nor a 2-node petgraph::DiGraph) can be symbolically executed by Kani/CBMC within "
           "600-900 s / 62 GB, and stubbing the traversal is rejected by Kani 0.68 (DESIGN.md §4 C09). A second attempt that "
           "replaces only the CONTAINER by an array-backed multigraph implementing petgraph's traits (real "
           "dasp_graph::process, real DfsPostOrder/Reversed; harness/attempts/c09_process.rs) did not leave symbolic "
           "execution within 16 min even for ONE node: the Vec::push growth paths of DfsPostOrder::stack and "
           "Processor::inputs sit inside three nested unwound loops (DESIGN.md §9.8). Solver-based checking of the real "
           "code cannot reach it here",
    "C13": "Bus is hard-wired to Rc<RefCell<..>> + BTreeMap + VecDeque: five fixed calls exceed 600 s under Kani; even "
           "with cfg-swapped array-backed containers three pull-only steps cost > 6 min, attach/pull/drop scripts are "
           "out of reach (DESIGN.md §4 C13)",
}

# properties whose check is planned in DESIGN.md but not built yet in this revision
PENDING = {k: "check not built yet in this revision of /verif (planned, DESIGN.md §4); not claimed until it exists"
           for k in ["C07", "C08", "C12", "C14", "C16"]}


def _add(p):
    PROPS[p.id] = p


_add(Prop(
    "C06", "c06_ring_buffer", "c06",
    functions=[
        "dasp_ring_buffer::Bounded::{from_raw_parts, from, from_full, push, pop, get, get_mut, index, index_mut, "
        "slices, slices_mut, iter, iter_mut, drain, len, is_empty, is_full, max_len, into_raw_parts}",
        "dasp_ring_buffer::DrainBounded::{next, size_hint, len}",
        "dasp_ring_buffer::Fixed::{from_raw_parts, from, push, get, get_mut, index, index_mut, set_first, slices, "
        "slices_mut, iter, iter_loop, iter_mut, len, into_raw_parts}",
    ],
    bounds="capacity N in 1..=4 (quick) / 1..=6 (thorough); element type u8; storage [u8; N] (plus &mut [u8] and "
           "Box<[u8]> at N=3); one operation (two for *two_ops*) from ANY state accepted by from_raw_parts; all "
           "loops unwound completely (unwinding assertions on)",
    outside="capacities > 6; element types other than u8; zero-sized elements; reads of never-written slots are "
            "judged functionally only (-Z uninit-checks is unusable in this image)",
    assumptions=["pre-state = any (start,len,data) with start < N, len <= N (Bounded) / first < N (Fixed): exactly "
                 "the invariant from_raw_parts asserts"],
    rules=[
        {"match": r"_n[56]::", "tier": "thorough"},
    ],
    design_ref="DESIGN.md §4 C06",
    claim="Inductive step decided by the solver: from EVERY representation-valid state of Bounded<[u8;N]> / "
          "Fixed<[u8;N]> (N<=4 quick, <=6 thorough) every public operation with arbitrary arguments returns what an "
          "ideal queue / delay line returns, leaves the ideal successor content, re-establishes the invariant, and "
          "(Kani's pointer checks) never touches memory outside the backing slice. Because every reachable state is "
          "covered as a pre-state, histories of any length are covered for these capacities - which the unit tests' "
          "single start offset (0) cannot do.",
))


_add(Prop(
    "C01", "c01_int_conv", "c01",
    functions=["dasp_sample::conv::{i8,i16,i24,i32,i48,i64,u8,u16,u24,u32,u48,u64}::to_{i8,..,u64} (all 132 "
               "integer->integer functions)", "I24/U24/I48/U48::{new, new_unchecked, inner}",
               "Sample::{to_sample, from_sample}, FromSample::from_sample_, ToSample::to_sample_ for each of the 132 pairs"],
    bounds="none on values: every in-range value of the source format of every ordered pair (full 2^64 space for "
           "i64/u64); the code is loop-free so no unwinding bound applies",
    outside="out-of-range I24/U24/I48/U48 values built with new_unchecked (the property quantifies over in-range values)",
    assumptions=["custom-width source values are obtained through the checked constructor new() (in-range)"],
    rules=[],
    design_ref="DESIGN.md §4 C01",
    claim="For each of the 132 ordered pairs the solver shows, for EVERY in-range source value, that the result's signed "
          "amplitude equals amp(s)*2^(bd-bs) (arithmetic floor when narrowing) in 128-bit reference arithmetic, that the "
          "result is in range (what new_unchecked relies on), that trait dispatch reaches the same function, that order, "
          "equilibrium and extremes are preserved, that narrowing undoes widening, and (via_* harnesses) that converting "
          "through every intermediate format at least as wide as the narrower endpoint agrees with the direct conversion. "
          "The unit tests sample 3-4 values per pair.",
))


_add(Prop(
    "C02", "c02_float_conv", "c02",
    functions=["dasp_sample::conv::{i8..u64}::{to_f32, to_f64} (24)", "dasp_sample::conv::{f32,f64}::to_{i8..u64} (24)",
               "conv::f32::to_f64, conv::f64::to_f32", "Sample::{to_sample, from_sample, to_float_sample} dispatch"],
    bounds="none on values: every value of each integer format; every f32/f64 with -1.0 <= s < 1.0 (the documented "
           "domain) for float->int; every f32 / every f64 bit pattern for float<->float; loop-free",
    outside="float inputs outside [-1.0, 1.0) and NaN for float->int (documented as overflowing)",
    assumptions=["float->int inputs are assumed to satisfy -1.0 <= s < 1.0"],
    design_ref="DESIGN.md §4 C02",
    claim="int->float: for every source value the result lies in [-1,1] and, scaled back by the exact power of two, "
          "equals an integer-only round-to-nearest-even reference of the signed amplitude to 24/53 bits (hence exact "
          "when the width fits the mantissa), order-preserving, equilibrium -> 0.0. float->int: for every float in "
          "[-1,1) the result equals a bit-decoded truncation reference, is in range, order-preserving, 0.0 -> "
          "equilibrium, -1.0 -> MIN, and inverts int->float wherever that was exact. f32->f64 is shown exact by "
          "canonical (sign, odd mantissa, exponent) equality; f64->f32 is shown to be the nearest f32, ties to even, "
          "overflowing only beyond the rounding threshold.",
))


# the operator's own overflow panic: `.expect("arithmetic operation overflowed")` (Kani shows expect_failed's
# message as a placeholder) and rustc's overflow assertion on the representation type inside types.rs
_C15_PANICS = [r"std::option::expect_failed\.assertion",
               r"attempt to (add|subtract|multiply|negate) with overflow \| .*dasp_sample/src/types\.rs"]
# Kani forces -C overflow-checks=on even when the profile turns them off, so in the `release` run rustc's
# overflow assertion on the REPRESENTATION type (i16/i32/i64) still cuts those paths: the release claim for `*`
# is restricted to operand pairs whose product fits the representation type (stated in bounds).
_C15_REL = [r"attempt to multiply with overflow \| .*dasp_sample/src/types\.rs"]
_add(Prop(
    "C15", "c15_types", "c15",
    functions=["dasp_sample::types::{I11,U11,I20,U20,I24,U24,I48,U48}::{new, inner, from(Rep), wrap_overflow, "
               "wrap_overflow_once, add, sub, mul, cmp, partial_cmp, eq}", "Neg for I11, I24, I48",
               "all 35 widening From impls of types.rs"],
    bounds="all in-range operands for new/order/add/sub/neg/widening; From<Rep>: full i16 range (11-bit types), full "
           "i32 range (24-bit), |v| < 2^25 (20-bit; loop unwound 34) and |v| < 2^53 (48-bit; unwound 34); mul: first "
           "factor any in-range value, second factor full range for 11/24-bit types, |b| <= 2^6/2^5 (20-bit) and "
           "2^5/2^4 (48-bit) in the quick tier, 2^20 resp. 2^10/2^9 in the thorough tier; BOTH builds: dev profile "
           "(debug assertions on) and the same code with debug assertions off; in the latter Kani still forces rustc's "
           "overflow assertions on, so release-build `*` is decided only for operand pairs whose product fits the "
           "representation type (i16/i32/i64) - add, sub, neg never overflow the representation and are complete",
    outside="From<i32> for the 20-bit types beyond |v| >= 2^25 and From<i64> for the 48-bit types beyond 2^53 (the wrap "
            "loop needs up to 2049 / 32769 iterations: full i64 did not finish in 600 s); second mul factors beyond the "
            "stated bounds; Div, Rem, Shl, Shr, Not, Bit* (not in the statement); Neg for U11 (unsigned)",
    assumptions=["operands are built with the checked constructor new()",
                 "debug build: failed checks matching the allow-list (the operator's own overflow panic) are the "
                 "behaviour the property demands; every other check must hold",
                 "release build: Kani's CBMC-level signed-overflow checks are disabled (--no-overflow-checks) because "
                 "wrapping of the representation type is defined behaviour in that configuration"],
    runs=[("harness", "debug", ["c15"]), ("harness", "release", ["c15"])],
    rules=[
        {"match": r"_wide::", "tier": "thorough", "profiles": ["debug", "release"], "allow_debug": _C15_PANICS,
         "allow_release": _C15_REL, "timeout": 1500},
        {"match": r"::mul$", "profiles": ["debug", "release"], "allow_debug": _C15_PANICS, "allow_release": _C15_REL},
        {"match": r"::(add|sub|neg)$", "profiles": ["debug", "release"], "allow_debug": _C15_PANICS},
        {"match": r"::from_rep$", "profiles": ["debug", "release"]},
        {"match": r".", "profiles": ["debug", "release"]},
    ],
    design_ref="DESIGN.md §4 C15",
    claim="For each of the 8 custom-width types and for every in-range operand (pair) the solver shows: new() succeeds "
          "exactly in range; From<Rep> lands in range and is congruent mod 2^bits; the widening Froms preserve the "
          "value; Ord/Eq coincide with numeric order; +, -, *, unary - never return a value outside [MIN, MAX] in "
          "either build, equal the exact result whenever they return in the debug-assertion build (so every "
          "overflowing pair panics) and equal the exact result wrapped mod 2^bits in the release build.",
))


_add(Prop(
    "C03", "c03_amp", "c03",
    functions=["Sample::{add_amp, mul_amp, to_signed_sample, to_float_sample, EQUILIBRIUM, IDENTITY} for all 14 formats",
               "impl<S, const N> Frame for [S; N]: map, zip_map, offset_amp, scale_amp, add_amp, mul_amp, to_signed_frame, "
               "to_float_frame, from_fn, from_samples (array_from_iter), channels, channels_ref, channels_mut, channel, "
               "channel_mut, EQUILIBRIUM, CHANNELS", "Channels/ChannelsRef/ChannelsMut::{next, len}",
               "impl Frame for the 14 bare sample types (mono)"],
    bounds="samples: every value of every format, every offset/gain whose mathematical result stays in range (general "
           "mul_amp: i8/i16/I24/u8/u16/U24/f32 quick; i32/u32/i64/f64 thorough; I48/U48/u64 thorough with gains restricted to "
           "f32-representable values - the full-f64-gain queries for those three did not finish in 2400 s); frames: S=u8 at N in "
           "{1,2,3,4,8,31,32} quick and every N in 1..=32 thorough, all 14 formats at N in {1,2}; per-channel "
           "assertions at a symbolic channel index; loops unwound N+2",
    outside="frame widths/formats not instantiated (the impl is one const-generic function, but each N is a separate "
            "verdict); offsets/gains whose result leaves the range; NaN/infinite float samples",
    assumptions=["mul_amp_general assumes the float product p = float(s)*g lies in [-1, 1)",
                 "add_amp_general assumes signed(s) + offset is representable in the Signed companion type"],
    rules=[
        {"match": r"s_(i32|u32|i48|i64|u48|u64|f64)::mul_amp_general", "tier": "thorough", "timeout": 2400},
        {"match": r"near_unity_gain::u48_sample", "tier": "thorough", "timeout": 2400},
        {"match": r"frame_u8_n(8|31|32)::scale_ops", "tier": "thorough", "timeout": 1200},
        {"match": r"frame_(i48|i64|u48|u64)_n2::scale_ops", "tier": "thorough", "timeout": 1200},
        {"match": r"frame_f64_n2::ops|mono::mono_(u64|i64|f64)", "tier": "thorough", "timeout": 2400},
        {"match": r"frame_u8_n(5|6|7|9|1\d|2\d|30)::", "tier": "thorough", "timeout": 1200},
    ],
    design_ref="DESIGN.md §4 C03",
    claim="For every value of every sample format the solver shows the offset/scale identities and, against wide-integer "
          "and bit-level float references, that add_amp/mul_amp are native addition/multiplication on the signed / "
          "normalised-float conversion converted back (unsigned formats re-centred). For the instantiated frame widths "
          "every Frame method equals the per-channel sample operation at an arbitrary (symbolic) channel, in channel "
          "order, and a bare sample behaves as the 1-channel frame.",
))


_C10_REFUSE = [r"\| .*dasp_slice/src/lib\.rs:\d+:\d+ in function dasp_slice::zip_map_in_place"]
_add(Prop(
    "C10", "c10_slice", "c10",
    functions=["dasp_slice::{to_frame_slice, to_frame_slice_mut, from_sample_slice, from_sample_slice_mut, to_sample_slice, "
               "to_sample_slice_mut, from_frame_slice, from_frame_slice_mut} for [S; N] frames (macro-generated impls of "
               "frame/fixed_size_array.rs)", "dasp_slice::{to_boxed_frame_slice, from_boxed_sample_slice, "
               "to_boxed_sample_slice, from_boxed_frame_slice}",
               "dasp_slice::{equilibrium, map_in_place, zip_map_in_place, write, add_in_place, "
               "add_in_place_with_amp_per_channel}"],
    bounds="views: S=i16 at N in {1,2,3,4,8,31,32} (quick) / every N in 1..=32 (thorough), all 14 formats at N=2; slice "
           "length L symbolic in 0..=3N+1; symbolic (frame, channel) index; boxed: concrete lengths {0, N, 2N, N+1} with "
           "CBMC's memory-leak check on; in-place ops: [i16;2] frames, two symbolic lengths <= 4",
    outside="L > 3N+1 (the view code is loop-free in L); boxed lengths other than the four listed; in-place lengths > 4; "
            "per-channel gains in add_in_place_with_amp_per_channel are picked from {0, 1, 0.5, -0.5}",
    assumptions=["in-place ops: the only failed checks allowed are inside dasp_slice::zip_map_in_place (its length "
                 "assert_eq!) - the refusal the property demands; the harness asserts la == lb after every call, so no "
                 "mismatching call returns, and the mapping closure asserts it never runs on a mismatch",
                 "boxed harnesses run with --cbmc-args --memory-leak-check"],
    rules=[
        {"match": r"::boxed_", "flags": ["-Z", "unstable-options", "--cbmc-args", "--memory-leak-check"]},
        {"match": r"inplace::(zip_map|write|add|add_with_amp)$", "allow": _C10_REFUSE},
    ],
    design_ref="DESIGN.md §4 C10",
    claim="For the instantiated N and every slice length L <= 3N+1 the solver shows the view succeeds iff N | L, has "
          "L/N frames at the very same address, frame i channel c aliases sample i*N+c (read and write-through), and "
          "the inverse view restores pointer and length; boxed conversions keep the allocation, and with CBMC's leak "
          "check both the success and the failure path free it; the in-place operations equal the element-wise frame "
          "operation and never return (nor run the mapping closure) on a length mismatch.",
))


_add(Prop(
    "C20", "c20_window", "c20",
    functions=["dasp_window::Hann::window (f64, f32)", "dasp_window::Rectangle::window", "dasp_signal::window::Window::{new, next}",
               "dasp_signal::window::Windower::{new, rectangle, next, size_hint}", "dasp_signal::window::Windowed::next",
               "dasp_signal::{rate, Rate::const_hz, ConstHz::step, phase, Phase::next_phase}"],
    bounds="Hann: every phase in [0,1] (f64 and f32) with cos replaced by a recording marker returning any value in "
           "[-1,1]; windower step: any remaining length <= 16, ANY usize bin >= 2 and hop >= 1 (one step, with the "
           "closed-form chunk count's recurrence => induction over the run); whole runs: L <= 6 (quick) / 8 (thorough), bin 2..=9, hop 1..=9; "
           "Window::new(n): n in 2..=64, first frame, and the step the window was built with (hook Phase::verif_step) == 1/(n-1); hann_f64 over all f64 phases only in the thorough tier "
           "(quick: phases k/2^20)",
    outside="numeric Hann facts (symmetry, 1 at p=0.5, 0 at the ends) - they are facts about libm's cos; the exact "
            "phases i/(n-1) for i >= 1: CBMC models float `%` by its range only (measured), so only phase_0 = 0, the "
            "step value 1/(n-1) and the range [0,1) are decided; remaining lengths > 16",
    stubs=["dasp_window::hann::ops::f64::cos -> recording marker returning a harness-chosen value in [-1, 1] (hann_f64, hann_f32)"],
    assumptions=["|cos(x)| <= 1 (the only property of cos used)"],
    rules=[
        {"match": r"shape::hann_f(64|32|64_grid)$", "tier": "thorough", "timeout": 2400},
    ],
    design_ref="DESIGN.md §4 C20",
    claim="The solver shows hann(p) == 0.5*(1 - cos(2*pi*p)) structurally (cos stubbed by a recording marker) and within "
          "[0,1] under |cos|<=1, rectangle == 1; from any remaining length <= 16 with any bin/hop one windower step "
          "yields a chunk iff a full bin remains, the chunk is frames[..bin] times the window, the remainder is "
          "frames[hop..], and size_hint brackets the closed-form number of chunks still to come (whose recurrence is "
          "asserted, so the count floor((L-b)/h)+1 and the hint's consistency follow for whole runs; whole runs are "
          "also decided directly for L <= 8).",
))


_add(Prop(
    "C11", "c11_rms", "c11",
    functions=["dasp_rms::Rms::{new, verif_from_state (hook), next, next_squared, current, reset, window_frames, into_parts, "
               "calc_rms_squared}", "dasp_signal::rms::{SignalRms::rms, Rms::next, Rms::next_squared, is_exhausted}",
               "dasp_sample::FloatSample::sample_sqrt -> ops::{f32,f64}::sqrt in the std AND the no_std build",
               "dasp_ring_buffer::Fixed::{push, iter_mut, len} underneath"],
    bounds="one next_squared step from ANY state (window position, contents, running sum) for f32 mono windows N in 1..=4 "
           "and [i16;2] N=2; exact-grid step (i8 inputs, integer oracle) N in {2,3} with |k| <= 15 (quick) and N in {3,4} "
           "over all of i8 (thorough); reset from any state; sqrt wiring with sqrt stubbed by a marker; no_std sqrt for "
           "every finite x in [2^-100, 2^100] (f32 and f64)",
    outside="general-float histories (a 3-push f32 history against an f64 recomputation did not finish in 3000 s) and the std "
            "build's libm sqrt contract (CBMC's sqrt model returned a counterexample that does not reproduce natively, so it is "
            "not exact enough to decide the half-ulp clause) - both harnesses were removed rather than claimed; "
            "a rigorous error bound for long general-float histories (needs an inductive real-arithmetic error invariant: "
            "proof-assistant territory); window lengths > 4; integer formats wider than 8 bits in the exact-grid scheme; "
            "f64 frames in the structural step",
    stubs=["dasp_sample::ops::f32::sqrt -> x + 1.0 marker (wiring::* only)"],
    assumptions=["structural step: window entries and running sum are finite, non-negative and far from overflow",
                 "grid step: the pre-state satisfies the invariant 'running sum == exact sum of the window' (it is shown to be preserved)"],
    runs=[("harness", "debug", ["c11"]), ("harness_nostd", "debug", ["c11n"])],
    extra_modules=["c11_nostd"],
    rules=[
        {"match": r"grid_full_", "tier": "thorough", "timeout": 3000},
    ],
    design_ref="DESIGN.md §4 C11",
    claim="From every state the solver shows one RMS step replaces exactly the oldest square, updates the running sum by "
          "+new -evicted with the clamp at zero, divides by the window length, is per-channel, never negative or NaN; on "
          "the exact grid the running sum provably stays the exact sum of the last N squares (integer oracle), so the "
          "output is the true mean square for histories of any length on that grid; reset restores silence; next/current "
          "are the square root of the squared variants; the adaptor feeds each source frame once; and in the no_std build "
          "the approximate sqrt is within 7 % for f32 and f64.",
))


_add(Prop(
    "C17", "c17_osc", "c17",
    functions=["dasp_signal::{rate, Rate::const_hz, Rate::hz, ConstHz::step, Hz::step, phase, Phase::{next_phase, "
               "next_phase_wrapped_to, next}, Sine::next, Saw::next, Square::next, Noise::{next_sample, next}, "
               "NoiseSimplex::next_sample}", "dasp_signal::ops::f64::{sin, floor}"],
    bounds="one frame from ANY stored phase in [0,1) (hook Phase::verif_from_state) and any finite step >= 0; saw, square "
           "formulas and sine's call structure at every phase, sine's argument 2*pi*p at 8 concrete phases (every phase: "
           "thorough); ConstHz step at 6 concrete (hz, rate) pairs (a symbolic pair - one f64 division on each side of the comparison - did not finish in 3000 s); Hz pulls: 3 frames, also from a frequency signal that reports itself exhausted from any point on; noise: range "
           "and no-panic for EVERY u64 seed (2 frames), clone/restart/shifted-seed agreement and the hash value at 6 "
           "concrete seeds incl. u64::MAX; simplex: any stored phase in [0, 65536): finite, in-bounds, "
           "|out| <= 2 for every phase and |out| <= 1 at 12 concrete phases",
    outside="(the phase ADVANCE 'next = (phase + step) wrapped into [0,1)' is NOT decided by the Kani harnesses - this "
            "Kani/CBMC evaluates float `%` to 0.0 for every operand pair - but by the second engine lib/phase_smt.py: the MIR "
            "of Phase::next_phase_wrapped_to / next_phase is symbolically executed into SMT-LIB and cvc5/z3 show, for every "
            "stored phase, every finite step >= 0 and both moduli dasp uses, that the call returns the stored phase and leaves "
            "a phase in [0,m) that differs from phase+step by a non-negative integer multiple of m); outside: the simplex "
            "amplitude bound |out| <= 1 for EVERY phase (did not finish in 3000 s; |out| <= 2 is decided for every phase); numeric accuracy of "
            "sin; purity of noise at symbolic seeds (equivalence of two chains of symbolic 64-bit multipliers: > 900 s)",
    stubs=["dasp_signal::ops::f64::sin -> recording marker returning a harness-chosen value in [-1,1] (sine_structure, "
           "sine_argument_any_phase)"],
    assumptions=["|sin(x)| <= 1 (CBMC's own model, or the marker's contract)"],
    rules=[{"match": r"sine_argument_any_phase", "tier": "thorough", "timeout": 3000}],
    extra_engines=["phase_smt"],
    design_ref="DESIGN.md §4 C17",
    claim="The solver shows for every finite non-negative step that the phase starts at 0, every yielded phase is the "
          "stored one and the stored one stays in [0,1); exactly one step / frequency frame is consumed per output; "
          "ConstHz/Hz steps are frequency/rate; saw == 1-2*phase and square == +-1 by half-cycle at every phase; sine is "
          "sin evaluated once at 2*pi*phase and stays in [-1,1]; for every u64 seed noise lies in (-1,1], equals an "
          "integer reference of the hash, and is a pure function of seed+index (clone, restart, shifted seed).",
))


_add(Prop(
    "C19", "c19_envelope", "c19",
    functions=["dasp_peak::{full_wave, positive_half_wave, negative_half_wave}, Rectifier impls of FullWave / "
               "PositiveHalfWave / NegativeHalfWave (14 formats, mono and [S;2])",
               "dasp_envelope::Detector::{new, peak*, rms, verif_with_gains (hook), verif_state (hook), set_attack_frames, "
               "set_release_frames, next}, calc_gain, Peak::detect, Rms::detect",
               "dasp_signal::envelope::{SignalEnvelope::detect_envelope, DetectEnvelope::{next, set_*, is_exhausted, into_parts}}"],
    bounds="rectifiers: every value of all 14 formats (full-wave under 'negated amplitude representable'), mono and 2 "
           "channels; envelope: ONE step from any previous envelope, any input frame and any attack/release gains in [0,1] "
           "for i16 and u8 (positive half-wave), [i16;2] (full-wave) and f32 (full-wave) - quick tier: gains on the grid "
           "k/256, thorough tier: any f32 gain; the f32-format step uses 12-bit mantissas over 2^-20..2^20 in both tiers "
           "(arbitrary f32 values with arbitrary gains did not finish in 3000 s); gains/setters with powf replaced "
           "by a recording marker; adaptor: 2 frames from a source that reports itself exhausted from ANY point on (0..=3)",
    outside="the numeric value of exp(-1/n) (libm; CBMC's powf is unconstrained); monotone convergence over long constant "
            "inputs (follows from the step relation with 0 <= gain <= 1, not separately decided); i64/f64 envelope steps; "
            "negative half-wave envelope steps",
    stubs=["dasp_envelope::detect::ops::f32::powf32 -> recording marker (gains::*)", "dasp_sample::ops::f32::sqrt -> x+1 marker (rms_detector_wiring)"],
    assumptions=["envelope step harnesses assume the previous envelope lies on the rectifier's side of equilibrium - an "
                 "invariant they also show to be preserved", "gains are assumed to lie in [0, 1] (exp(-1/n) for n > 0, or 0)"],
    design_ref="DESIGN.md §4 C19",
    claim="Every rectifier output equals |amp|, max(amp,0), min(amp,0) per channel for every value of every format; one "
          "envelope step from any state equals detected + gain*(previous - detected) in the format's own arithmetic "
          "(bit-level reference), picks the attack gain exactly when the detected value exceeds the previous envelope, "
          "never leaves [previous, detected], equals the detected value for gain 0, and stores its output as the new "
          "state; gains are e^(-1/frames) (0 for zero frames), land in their own slots and setters leave the envelope alone.",
))


_add(Prop(
    "C04", "c04_adaptors", "c04",
    functions=["Signal::next / is_exhausted of Map, ZipMap, AddAmp, MulAmp, ScaleAmp, OffsetAmp, ScaleAmpPerChannel, "
               "OffsetAmpPerChannel, ClipAmp, Inspect, Delay", "impl Signal for &mut S, Signal::by_ref"],
    bounds="frame types i16 (mono), [u8;2], [f32;2]; sources of symbolic length <= 4 with symbolic contents; 3-5 next() "
           "calls per harness; delay length symbolic <= 3; stacks: the listed ones (depth <= 4, one tree of three sources); "
           "gains on the grid k/64 or picked from constants; sample values restricted so that offsets stay in range",
    outside="deeper / other stacks (a *programs* quantifier cannot be symbolic over Rust types; follows from C03 plus "
            "structural induction, not claimed); other frame formats; more than 5 frames per run (the adaptors hold no "
            "per-frame state except Delay's counter)",
    assumptions=["sample values and offsets are assumed small enough that add/offset cannot overflow (the property "
                 "quantifies over in-range results)"],
    design_ref="DESIGN.md §4 C04",
    claim="For each adaptor and the listed stacks the solver shows, for arbitrary source contents, lengths and parameters, "
          "that output n is the Frame operation (C03) of source frame(s) n, that every source is pulled exactly once per "
          "output (none during a delay's silence), and that a borrowed source resumes at exactly the next frame.",
))


_add(Prop(
    "C05", "c05_exhaustion", "c05",
    functions=["dasp_signal::{from_iter, from_interleaved_samples_iter}, FromIterator / FromInterleavedSamplesIterator::{next, "
               "is_exhausted}", "is_exhausted of Map, ZipMap, AddAmp, MulAmp, ScaleAmp, OffsetAmp, *PerChannel, ClipAmp, Inspect, "
               "Delay, Hz, rms::Rms, envelope::DetectEnvelope, &mut S", "UntilExhausted::next, lift, Take::{next, len, size_hint}, "
               "IntoInterleavedSamples::{next_sample, into_iter}, IntoInterleavedSamplesIterator::next"],
    bounds="sources: 6 samples / frames with symbolic length 0..=6, channel counts 1, 2, 3 (and a bare-sample frame), 3 further "
           "next() calls after exhaustion; adaptors: two sources of symbolic length 0..=3 (mul_hz: source 0..=3 and multiplier 0..=3 at ratio 1); delay <= 3; take <= 5; "
           "interleaved-sample adaptor cloned after ANY number of samples of a 3-frame stereo source",
    outside="longer streams (no length-dependent state exists beyond the one-frame look-ahead; stated, not decided); frame "
            "formats other than i16/u8/f32/f64",
    design_ref="DESIGN.md §4 C05",
    claim="For every source length and content within the bound the solver shows that iterator-backed signals yield exactly "
          "the complete frames in order (trailing partial frame dropped), report exhaustion exactly when none remain, yield "
          "equilibrium afterwards and never poll the iterator after its None; that exhaustion is the OR over inputs for "
          "combining adaptors, unchanged through length-preserving ones, delayed by d for delay(d); that until_exhausted / "
          "lift yield exactly min-length frames and then None for good; take(n) yields exactly n; interleaved output yields "
          "frames x channels samples in channel order.",
))


_add(Prop(
    "C12", "c12_fork", "c12",
    functions=["Signal::fork, Fork::{by_ref, by_rc}", "BranchRefA/BranchRefB/BranchRcA/BranchRcB::{next, pending_frames}",
               "dasp_ring_buffer::Bounded::{push, pop, len} underneath"],
    bounds="ALL interleavings (symbolic schedule) of 8 pulls (12 in the thorough tier) on the two by-reference branches from "
           "the initial state (an EMPTY ring buffer at ANY start offset, i.e. fresh or used-and-drained) whose lead never exceeds the capacity, capacities 1, 2, 3; re-split after 3 pulls (capacity 2); "
           "reference-counted branches: all interleavings of 6 pulls, capacity 2",
    outside="schedules longer than the bound (the reachable state space - pending flag x queue length <= capacity - is "
            "visited within 8 steps for capacity <= 3: an observation from the covers, not a proof); capacities > 3",
    assumptions=["schedules are restricted by the documented precondition: neither branch gets ahead of the other by more "
                 "than the ring buffer's capacity"],
    design_ref="DESIGN.md §4 C12",
    claim="With the pull schedule a vector of symbolic booleans the solver shows for every admissible interleaving within "
          "the bound that each branch receives exactly frame number (its own pull count), that pending_frames equals the lag "
          "after every step, and that the source is pulled exactly max(countA, countB) times.",
))

_add(Prop(
    "C14", "c14_buffered", "c14",
    functions=["Signal::buffered, Buffered::{next, next_frames, is_exhausted, into_parts}, BufferedFrames::next",
               "dasp_ring_buffer::Bounded::{from_raw_parts, push, pop, len, max_len} underneath"],
    bounds="capacity 1, 2, 3 with ANY valid (start, len, contents) pre-fill; source of symbolic length <= 4 and contents; 6 "
           "single next() calls, or 3 symbolic steps each either next() or a batch partially/fully drained; drain to exhaustion",
    outside="capacities > 3, sources longer than 4 frames, scripts longer than the bound",
    design_ref="DESIGN.md §4 C14",
    claim="For every pre-fill state, source and script within the bound the solver shows the output stream is the pre-filled "
          "frames oldest-first followed by the source in order, that the source is pulled exactly one buffer at a time and "
          "only when the buffer ran empty, that is_exhausted holds exactly when the buffer is empty and the source exhausted, "
          "and that draining yields len + ceil(S/CAP)*CAP frames, i.e. fewer than one buffer of padding.",
))


_add(Prop(
    "C08", "c08_converter", "c08",
    functions=["dasp_signal::interpolate::Converter::{scale_playback_hz, from_hz_to_hz, scale_sample_hz, set_playback_hz_scale, "
               "set_hz_to_hz, set_sample_hz_scale, next, is_exhausted, source, verif_from_state (hook), verif_state (hook)}",
               "Signal::{mul_hz, from_hz_to_hz, scale_hz}, MulHz::{next, is_exhausted}",
               "dasp_interpolate::floor::Floor::{new, interpolate, next_source_frame, reset}",
               "dasp_interpolate::linear::Linear::{new, interpolate, next_source_frame, reset}"],
    bounds="one output from ANY state with interpolation value v in [0,3) (quick) / [0,8) (thorough) and ANY finite ratio > 0; "
           "linear: blend formula for i16 frames at ANY fraction in [0,1) and for f64 stereo frames on a grid; the interval "
           "clause for i8 frames with the fraction on the 2^-8 grid (i16 operands did not finish in 900 s); ratio-1 run of 5 outputs; floor run with ratio k/4, 1<=k<=12, R <= 3 source frames after priming, up to 18 "
           "outputs; mul_hz: 4 outputs with fixed control values; setters: ANY finite ratio > 0 through set_playback_hz_scale, the unit "
           "ratio through all three setters, each from ANY position v (ratio changed, position untouched)",
    outside="sinc (C18); accumulated rounding of non-dyadic ratios over long runs (the position P_n is stated in the "
            "converter's own f64 arithmetic - the real-number drift is not decided); v >= 8 in one step; Linear for other "
            "integer formats",
    design_ref="DESIGN.md §4 C08",
    claim="From every converter state within the bound the solver shows one output pulls exactly floor(v) source frames in "
          "order, interpolates once afterwards at v - floor(v) in [0,1), and advances the position by exactly the ratio in "
          "effect, and that exhaustion is reported exactly when the source is exhausted and v >= 1 - so pulled-frames + v "
          "tracks P_n for any history. Floor yields the frame at floor(P_n); linear is the f64 straight-line blend and never "
          "leaves the interval of its two frames; ratio 1 is transparent; a finite source at ratio r yields ceil((R+1)/r) "
          "outputs or one more; mul_hz pulls its control signal once per output.",
))


_add(Prop(
    "C18", "c18_sinc", "c18",
    functions=["dasp_interpolate::sinc::Sinc::{new, interpolate, next_source_frame, reset, depth}",
               "dasp_ring_buffer::Fixed::{push, index, set_first, iter_mut, len} underneath",
               "dasp_signal::interpolate::Converter::next driving Sinc at ratio 1"],
    bounds="depth 1, 2, 3; ANY ring offset and any number (0..=depth+1) of pushed frames, i.e. every priming stage; frames "
           "f64 on the 2^-15 grid in [-1,1] (tap structure and ratio-1 transparency: 2^-13 grid in [-4,4), i.e. with float headroom; [i16;2] and i32 for the integer-format harnesses); index safety and reset at any x in "
           "[0,1); tap/weight structure (depth 1 in the quick tier, depths 2 and 3 in the thorough tier: 400-700 s each) at x in {0, 0.25} "
           "with sin/cos replaced by power-of-two stand-ins, from the states reached by 0, d, 2d+1 pushes (transparency: 0, 1, d, d+1, 2d+1 pushes) into a fresh ring (symbolic frame values); transparency at x = 0 "
           "(ratio exactly 1) with libm's sin/cos values tabulated at the kernel's concrete arguments, directly and through "
           "the Converter (depth+3 outputs)",
    outside="NOT decided: linearity within rounding, finiteness for finite input, the 1 % constant-reproduction clause for "
            "depth >= 4 - all need the numeric values of sin/cos at symbolic arguments, which CBMC over-approximates as "
            "'any value in [-1,1]'; depth > 3",
    stubs=["dasp_interpolate::sinc::ops::f64::{sin,cos} -> table of host-libm values at the concrete arguments for x=0 "
           "(transparent_at_ratio_one, converter_delays_by_depth); -> linear stand-ins (taps_and_weights)"],
    trusted=["host libm sin/cos values in harness/src/c18_table.in (generated by harness/gen/gen_c18_table.py)"],
    rules=[
        {"match": r"new_requires_even_length", "expect": "fail"},
        # index safety runs over CBMC's own sin/cos models (any value in [-1,1] per call): sin(a)/a can then be
        # infinite for tiny a, so Kani's float NaN/overflow checks are switched off for these harnesses; rustc's own
        # `attempt to subtract with overflow` and bounds assertions - the subject - stay on
        {"match": r"d[23]::taps_and_weights$", "flags": ["--no-overflow-checks"], "tier": "thorough", "timeout": 3000},
        {"match": r"::(index_safety|taps_and_weights)$", "flags": ["--no-overflow-checks"]},
    ],
    design_ref="DESIGN.md §4 C18",
    claim="For depth <= 3 and every priming stage the solver shows the kernel never under/overflows an index or reads out of "
          "range, reads exactly the taps idx-n and idx+1+n with the windowed-sinc weights (structure, with stand-in sin/cos), "
          "is silent after reset, reproduces the frame at idx to 1e-12 on the sample grid with libm's tabulated values, and "
          "through the converter at ratio 1 delivers source frame k-depth at output k.",
))


_add(Prop(
    "C16", "c16_nodes", "c16",
    functions=["dasp_graph::node::{Sum, SumBuffers, Pass, Delay}::process", "impl Node for dyn Signal<Frame = F>",
               "forwarding impls of Node for &mut T, Box<T>, BoxedNode, BoxedNodeSend, dyn Fn, dyn FnMut, fn",
               "dasp_graph::Buffer::{from, silence, deref, deref_mut, clone, SILENT}", "Input::{verif_new (hook), buffers}",
               "crates.io dasp_slice 0.11.0 add_in_place and dasp_ring_buffer 0.11.0 Fixed::push as linked by dasp_graph"],
    bounds="buffer counts concrete per harness: Sum with (inputs x buffers -> outputs) in {(0 -> 1), (1x2 -> 1), (1x1 -> 2), "
           "((2,1) -> 2)}, SumBuffers (2,1) -> 2, Pass 2 inputs (2,3 buffers) -> 3 outputs, Delay D in {1,2,3} over two "
           "consecutive calls and per-channel lengths (1,2) with 3 channels offered; all 64 samples of every buffer symbolic "
           "finite f32 with |v| <= 2^20; assertion at a symbolic sample index (two-input Sum / SumBuffers: at sample indices 0, 17, 63); signal node: two calls, symbolic start frame",
    outside="GraphNode (needs dasp_graph::process: C09, not reachable); symbolic input/buffer counts (measured > 500 s); more "
            "than 2 inputs; NaN / infinite samples",
    assumptions=["buffer samples are arbitrary finite f32 with |v| <= 2^20 (no NaN / infinity)"],
    rules=[{"match": r"sum::(two_inputs_mismatched_channels|sum_buffers)$", "tier": "thorough", "timeout": 3000}],
    design_ref="DESIGN.md §4 C16",
    claim="For the tabulated input/buffer shapes and arbitrary buffer contents the solver shows at an arbitrary sample index "
          "that Sum writes per output channel the sum over the inputs that have that channel (silence where none has), "
          "SumBuffers writes the sum of all buffers of all inputs to every output, Pass copies the first input and leaves "
          "surplus outputs untouched, Delay delays each channel by its ring buffer's length continuously across calls, the "
          "signal node de-interleaves successive frames one buffer length per call, and every wrapper forwards the very "
          "same arguments exactly once.",
))


_add(Prop(
    "C07", "c07_noalloc", "c07",
    functions=["alloc::alloc::{alloc, alloc_zeroed, realloc, realloc_nonnull, dealloc, dealloc_nonnull} (stubbed by "
               "asserting / counting versions - every heap operation of the compiled code, std included, goes through them)",
               "the public operations of dasp_sample, dasp_frame, dasp_slice (borrowed), dasp_ring_buffer, dasp_peak, dasp_rms, "
               "dasp_envelope, dasp_interpolate (floor, linear, sinc), dasp_window, dasp_signal (all sources and adaptors, fork by "
               "reference and by Rc, buffered, converter, mul_hz, windower) and the stock dasp_graph nodes driven directly"],
    bounds="one harness per API area; objects constructed first, then 3-4 rounds of operations with symbolic values, lengths "
           "and parameters in the steady phase; all loops fully unwound (unwinding assertions on); instantiations as listed in "
           "the harness source (i16 / u8 / f32 / f64 frames, capacities 2-4, sinc depth 2, 64-sample graph buffers)",
    outside="the BUS clause (backlog stops growing) and the GRAPH-PROCESSOR clause (Processor::process re-uses its buffers): "
            "neither Bus nor process can be executed symbolically here (C13, C09); other instantiations; call sequences longer "
            "than the bound - for struct-only adaptors no allocator call is reachable from next() at all, so the bound is "
            "immaterial there, but that is an observation from the slice, not a separate verdict",
    stubs=["alloc::alloc::alloc / alloc_zeroed / realloc / realloc_nonnull / dealloc / dealloc_nonnull -> versions that assert "
           "!STEADY, count, and forward to __rust_alloc / __rust_alloc_zeroed / __rust_realloc / __rust_dealloc",
           "alloc::fmt::format -> asserts !STEADY (a String built by format! is one allocation; only the empty literal is "
           "exempt) and returns String::new(): the formatting machinery itself is not explored (it makes the harness "
           "undecidable), so a format! call whose output happens to be empty would be over-reported",
           "dasp_interpolate::sinc::ops::f64::{sin,cos} -> constant 0.25 (api::rate_conversion only)"],
    assumptions=["sample values are kept small enough that no arithmetic-overflow panic (not an allocation question) ends a path early",
                 "positive controls (Vec::push, Vec growth, Box drop in the steady phase) must be REFUTED on every run, "
                 "otherwise the check reports itself inconclusive"],
    rules=[
        {"match": r"control::(vec_push|vec_grow|box_drop)", "expect": "fail"},
        {"match": r"api::graph_nodes", "timeout": 1800},
        {"match": r"api::rate_conversion", "flags": ["--no-overflow-checks"]},
    ],
    design_ref="DESIGN.md §4 C07",
    claim="With the allocator entry points replaced by asserting stubs the solver explores every path of the real compiled "
          "code (std included) for each API area and shows no allocation, reallocation or free is reachable once the objects "
          "exist, for arbitrary input values, lengths and parameters within the bound; by_rc allocates exactly once, at "
          "creation; user-supplied boxed ring-buffer storage keeps its address and length. Three positive controls prove on "
          "every run that the stubs see Vec::push, Vec growth and Box drop.",
))
