"""Per-property specification of which harnesses exist, in which tier/profile they run, which
failed-check descriptions are *allowed* (panics the property itself permits), and the text that
goes into the evidence (functions encoded, bounds, assumptions, stubs).

Harness names are discovered from Kani's own metadata after codegen (macro-generated harnesses
included); rules are matched (first match wins, regex `search` on the harness' pretty name) to
attach attributes.  A harness matched by no rule runs in the quick tier with default settings.
"""

DEFAULTS = {
    "tier": "quick",            # quick harnesses also run in the thorough tier
    "profiles": ["debug"],      # which builds of the harness crate run it
    "allow": [],                # regexes of failed-check descriptions the property permits
    "flags": [],                # extra cargo-kani flags
    "timeout": None,            # seconds; default per tier
    "mem_gb": 24,
    "expect": "pass",           # "fail": positive control, must be refuted (vacuity / sensitivity witness)
    "bounds": None,
    "weight": 1,                # rough number of cores/GBs the solver needs (pool scheduling)
}


class Prop:
    def __init__(self, pid, module, feature, functions, bounds, outside, assumptions=(), stubs=(),
                 rules=(), runs=None, design_ref="", trusted=(), claim="", note=""):
        self.id = pid
        self.module = module
        self.feature = feature
        self.functions = list(functions)
        self.bounds = bounds
        self.outside = outside
        self.assumptions = list(assumptions)
        self.stubs = list(stubs)
        self.rules = list(rules)
        # runs: list of (crate, profile, [features])
        self.runs = runs or [("harness", "debug", [feature])]
        self.design_ref = design_ref
        self.trusted = list(trusted)
        self.claim = claim
        self.note = note or ("Trusted: Kani's MIR->goto translation, CBMC's bit-precise semantics and SAT back end, the "
                             "harness oracle. Bounds: " + bounds + ". Outside the claim: " + outside)

    def attrs_for(self, name):
        import re
        a = dict(DEFAULTS)
        for r in self.rules:
            if re.search(r["match"], name):
                for k, v in r.items():
                    if k != "match":
                        a[k] = v
                break
        return a


PROPS = {}

NOT_APPLICABLE = {
    "C09": "dasp_graph::process is a loop around petgraph's DfsPostOrder over Vec-backed containers: measured, not even "
           "a concrete 5-node traversal (nor a 2-node petgraph::DiGraph) can be symbolically executed by Kani/CBMC within "
           "600-900 s / 62 GB, and stubbing the traversal is rejected by Kani 0.68 (DESIGN.md §4 C09); solver-based "
           "checking of the real code cannot reach it here",
    "C13": "Bus is hard-wired to Rc<RefCell<..>> + BTreeMap + VecDeque: five fixed calls exceed 600 s under Kani; even "
           "with cfg-swapped array-backed containers three pull-only steps cost > 6 min, attach/pull/drop scripts are "
           "out of reach (DESIGN.md §4 C13)",
}

# properties whose check is planned in DESIGN.md but not built yet in this revision
PENDING = {k: "check not built yet in this revision of /verif (planned, DESIGN.md §4); not claimed until it exists"
           for k in ["C01", "C02", "C03", "C04", "C05", "C07", "C08", "C10", "C11", "C12", "C14", "C15", "C16",
                     "C17", "C18", "C19", "C20"]}


def _add(p):
    PROPS[p.id] = p


_add(Prop(
    "C06", "c06_ring_buffer", "c06",
    functions=[
        "dasp_ring_buffer::Bounded::{from_raw_parts, from, from_full, push, pop, get, get_mut, index, index_mut, "
        "slices, slices_mut, iter, iter_mut, drain, len, is_empty, is_full, max_len, into_raw_parts}",
        "dasp_ring_buffer::DrainBounded::{next, size_hint, len}",
        "dasp_ring_buffer::Fixed::{from_raw_parts, from, push, get, get_mut, index, index_mut, set_first, slices, "
        "slices_mut, iter, iter_loop, iter_mut, len, into_raw_parts}",
    ],
    bounds="capacity N in 1..=4 (quick) / 1..=6 (thorough); element type u8; storage [u8; N] (plus &mut [u8] and "
           "Box<[u8]> at N=3); one operation (two for *two_ops*) from ANY state accepted by from_raw_parts; all "
           "loops unwound completely (unwinding assertions on)",
    outside="capacities > 6; element types other than u8; zero-sized elements; reads of never-written slots are "
            "judged functionally only (-Z uninit-checks is unusable in this image)",
    assumptions=["pre-state = any (start,len,data) with start < N, len <= N (Bounded) / first < N (Fixed): exactly "
                 "the invariant from_raw_parts asserts"],
    rules=[
        {"match": r"_n[56]::", "tier": "thorough"},
    ],
    design_ref="DESIGN.md §4 C06",
    claim="Inductive step decided by the solver: from EVERY representation-valid state of Bounded<[u8;N]> / "
          "Fixed<[u8;N]> (N<=4 quick, <=6 thorough) every public operation with arbitrary arguments returns what an "
          "ideal queue / delay line returns, leaves the ideal successor content, re-establishes the invariant, and "
          "(Kani's pointer checks) never touches memory outside the backing slice. Because every reachable state is "
          "covered as a pre-state, histories of any length are covered for these capacities - which the unit tests' "
          "single start offset (0) cannot do.",
))
