#!/usr/bin/env python3
"""MIR -> SMT-LIB check of the phase accumulator (property C17, and the phase clause of C20).

Why a second engine: Kani 0.68 / CBMC 6.11 evaluate the float remainder `%` to 0.0 for every operand
pair (measured), so nothing downstream of `Phase::next_phase_wrapped_to`'s `%` can be decided there.
Here the function's MIR (regenerated from /repo's current source with the nightly toolchain on every
run) is executed symbolically by a small interpreter for straight-line MIR, the result is emitted as
SMT-LIB (FloatingPoint theory) and z3 decides, for EVERY stored phase, step and the two moduli dasp
uses (1.0 and 65536.0):

  (A) the call returns the phase stored BEFORE the call;
  (B) the new stored phase p' satisfies 0 <= p' < m and (p (+) step) - p' is a non-negative integer
      multiple of m, where (+) is the f64 addition - i.e. "advances by step, wrapped into [0, m)";
  (C) exactly one `Step::step` call is made, on the phase's own step field.

The float `%` is given its IEEE/C `fmod` meaning, written for a power-of-two modulus m as
x - m*trunc(x/m) (every operation exact) - that definition is the encoder's trusted model of the MIR
operator `Rem` on f64; the *property* (B) is stated independently of it (range + integrality).
A satisfying assignment is replayed natively against the real code (replay_phase crate) before a
VIOLATION is reported.
"""
import os
import re
import shutil
import subprocess
import sys
import time

VERIF = os.path.dirname(os.path.dirname(os.path.abspath(__file__)))
BUILD = os.environ.get("VERIF_BUILD") or os.path.join(VERIF, ".build")
REPO = os.environ.get("VERIF_REPO") or "/repo"


class Unsupported(Exception):
    pass


# ----------------------------------------------------------------------------------------------
# MIR
# ----------------------------------------------------------------------------------------------
def dump_mir():
    tdir = os.path.join(BUILD, "mir-target")
    shutil.rmtree(tdir, ignore_errors=True)  # cargo prints nothing for a fresh unit
    env = dict(os.environ)
    env["CARGO_NET_OFFLINE"] = "true"
    env.pop("RUSTFLAGS", None)
    cmd = ["cargo", "+nightly", "rustc", "--offline", "-p", "dasp_signal", "--lib", "--target-dir", tdir, "--",
           "-Zunpretty=mir", "-C", "debug-assertions=off", "-C", "overflow-checks=on"]
    t0 = time.time()
    p = subprocess.run(cmd, cwd=REPO, env=env, stdout=subprocess.PIPE, stderr=subprocess.PIPE, text=True, timeout=900)
    shutil.rmtree(tdir, ignore_errors=True)
    if p.returncode != 0 or "fn " not in p.stdout:
        raise Unsupported("MIR dump failed: " + p.stderr[-800:])
    return p.stdout, time.time() - t0


def find_fn(mir, name):
    """Return the text of the MIR function whose path ends in ::<name>( and that takes &mut Phase<S>."""
    out = []
    for m in re.finditer(r"^fn (<impl at [^>]+>::%s)\((.*?)\) -> (\S+) \{\n(.*?)^\}" % re.escape(name), mir, re.M | re.S):
        out.append({"path": m.group(1), "params": m.group(2), "ret": m.group(3), "body": m.group(4)})
    return out


def parse_blocks(body):
    blocks = {}
    for m in re.finditer(r"^    (bb\d+)(?: \(cleanup\))?: \{\n(.*?)^    \}", body, re.M | re.S):
        stmts = [l.strip() for l in m.group(2).splitlines() if l.strip() and not l.strip().startswith("//")]
        blocks[m.group(1)] = stmts
    return blocks


class Sym:
    """Symbolic execution of loop-free MIR over f64 values and one `&mut self` struct."""

    def __init__(self, mir):
        self.mir = mir
        self.calls = []      # (callee, args)
        self.fresh = 0
        self.decls = []      # SMT declarations
        self.path_call_mismatch = False

    def new_sym(self, hint):
        self.fresh += 1
        n = "%s_%d" % (hint, self.fresh)
        self.decls.append("(declare-const %s (_ FloatingPoint 11 53))" % n)
        return n

    def operand(self, tok, env):
        tok = tok.strip()
        m = re.match(r"^(copy|move) (.+)$", tok)
        if m:
            return self.read_place(m.group(2), env)
        m = re.match(r"^const (-?[\d_.eE+-]+)f64$", tok)
        if m:
            return fp_const(float(m.group(1).replace("_", "")))
        m = re.match(r"^const .*TWO_POW_SIXTEEN$", tok)
        if m:
            return fp_const(65536.0)
        raise Unsupported("operand: " + tok)

    def read_place(self, place, env):
        place = place.strip()
        if re.match(r"^_\d+$", place):
            if place not in env:
                raise Unsupported("read of unassigned local " + place)
            return env[place]
        m = re.match(r"^\(\(\*(_\d+)\)\.(\d+): f64\)$", place)
        if m:
            base = env.get(m.group(1))
            if not (isinstance(base, tuple) and base[0] == "selfref"):
                raise Unsupported("deref of non-self pointer " + place)
            return env["self.fields"][int(m.group(2))]
        raise Unsupported("place: " + place)

    def write_place(self, place, val, env):
        place = place.strip()
        if re.match(r"^_\d+$", place):
            env[place] = val
            return
        m = re.match(r"^\(\(\*(_\d+)\)\.(\d+): f64\)$", place)
        if m:
            base = env.get(m.group(1))
            if not (isinstance(base, tuple) and base[0] == "selfref"):
                raise Unsupported("write through non-self pointer " + place)
            env["self.fields"][int(m.group(2))] = val
            return
        raise Unsupported("write place: " + place)

    def rvalue(self, rv, env):
        rv = rv.strip()
        m = re.match(r"^(Add|Sub|Mul|Div|Rem)\((.+), (.+)\)$", rv)
        if m:
            a, b = self.operand(m.group(2), env), self.operand(m.group(3), env)
            op = m.group(1)
            if op == "Rem":
                return fmod(a, b)
            return "(fp.%s RNE %s %s)" % ({"Add": "add", "Sub": "sub", "Mul": "mul", "Div": "div"}[op], a, b)
        m = re.match(r"^(Ge|Gt|Le|Lt|Eq|Ne)\((.+), (.+)\)$", rv)
        if m:
            a, b = self.operand(m.group(2), env), self.operand(m.group(3), env)
            t = {"Ge": "(fp.geq %s %s)", "Gt": "(fp.gt %s %s)", "Le": "(fp.leq %s %s)", "Lt": "(fp.lt %s %s)",
                 "Eq": "(fp.eq %s %s)", "Ne": "(not (fp.eq %s %s))"}[m.group(1)] % (a, b)
            return ("bool", t)
        m = re.match(r"^Neg\((.+)\)$", rv)
        if m:
            return "(fp.neg %s)" % self.operand(m.group(1), env)
        m = re.match(r"^&mut \(\(\*(_\d+)\)\.(\d+): (\S+)\)$", rv)
        if m:
            base = env.get(m.group(1))
            if not (isinstance(base, tuple) and base[0] == "selfref"):
                raise Unsupported("borrow through non-self pointer")
            return ("fieldref", int(m.group(2)))
        if re.match(r"^(copy|move|const) ", rv):
            return self.operand(rv, env)
        raise Unsupported("rvalue: " + rv)

    def run(self, fn, args, self_fields):
        """fn: dict from find_fn; args: values for _1..; returns (ret, self_fields after).  Branches
        (switchInt on a float comparison) are explored on both sides and merged with ite; the list of
        external calls must be the same on every path (checked), so `self.calls` stays a flat list."""
        blocks = parse_blocks(fn["body"])
        env = {"self.fields": dict(self_fields)}
        for i, a in enumerate(args):
            env["_%d" % (i + 1)] = a
        paths = self.exec_block(blocks, "bb0", env, [], 0)
        # merge
        call_sets = [tuple((c, tuple(map(str, a))) for c, a in p[3]) for p in paths]
        if len(set(len(c) for c in call_sets)) != 1:
            self.path_call_mismatch = True
        self.calls.extend(paths[0][3])
        ret = paths[-1][1]
        fields = dict(paths[-1][2])
        for (cond, r, f, _calls) in reversed(paths[:-1]):
            ret = ite(cond, r, ret)
            for k in fields:
                fields[k] = ite(cond, f[k], fields[k]) if isinstance(fields[k], str) and isinstance(f[k], str) else fields[k]
        return ret, fields

    def exec_block(self, blocks, bb, env, calls, depth):
        """returns list of (path condition, ret, fields, calls) - one per path; path conditions are
        conjunctions accumulated along the way (the last path serves as the `else`)."""
        if depth > 40:
            raise Unsupported("too many blocks (loop?)")
        if bb not in blocks:
            raise Unsupported("missing block " + bb)
        env = dict(env)
        env["self.fields"] = dict(env["self.fields"])
        calls = list(calls)
        for st in blocks[bb]:
            st = st.rstrip(";")
            if st == "return":
                return [("true", env.get("_0"), env["self.fields"], calls)]
            m = re.match(r"^goto -> (bb\d+)$", st)
            if m:
                return self.exec_block(blocks, m.group(1), env, calls, depth + 1)
            m = re.match(r"^switchInt\((?:move|copy) (_\d+)\) -> \[0: (bb\d+), otherwise: (bb\d+)\]$", st)
            if m:
                c = env.get(m.group(1))
                if not (isinstance(c, tuple) and c[0] == "bool"):
                    raise Unsupported("switchInt on a non-comparison value")
                cond = c[1]
                out = []
                for (pc, r, f, cl) in self.exec_block(blocks, m.group(3), env, calls, depth + 1):
                    out.append(("(and %s %s)" % (cond, pc), r, f, cl))
                for (pc, r, f, cl) in self.exec_block(blocks, m.group(2), env, calls, depth + 1):
                    out.append(("(and (not %s) %s)" % (cond, pc), r, f, cl))
                return out
            if st.startswith("StorageLive") or st.startswith("StorageDead") or st.startswith("nop") or st.startswith("FakeRead"):
                continue
            m = re.match(r"^(.+?) = (.+?)\((.*)\) -> \[return: (bb\d+), unwind [^\]]+\]$", st)
            if m and not re.match(r"^(Add|Sub|Mul|Div|Rem|Neg|Ge|Gt|Le|Lt|Eq|Ne)$", m.group(2).strip()):
                dest, callee, argtxt, nxt = m.group(1), m.group(2).strip(), m.group(3), m.group(4)
                cargs = [self.rvalue(a, env) if a.strip().startswith("&") else self.operand(a, env) for a in split_args(argtxt)]
                val = self.call(callee, cargs, env, calls)
                self.write_place(dest, val, env)
                return self.exec_block(blocks, nxt, env, calls, depth + 1)
            m = re.match(r"^(.+?) = (.+)$", st)
            if m:
                self.write_place(m.group(1), self.rvalue(m.group(2), env), env)
                continue
            raise Unsupported("statement: " + st)
        raise Unsupported("block %s has no terminator" % bb)

    def call(self, callee, cargs, env, calls):
        if callee == "<S as Step>::step":
            calls.append((callee, cargs))
            # one symbol per call site occurrence on a path; paths share the k-th symbol
            idx = len(calls)
            name = "step_%d" % idx
            decl = "(declare-const %s (_ FloatingPoint 11 53))" % name
            if decl not in self.decls:
                self.decls.append(decl)
            return name
        m = re.match(r"^Phase::<S>::(\w+)$", callee)
        if m:
            cands = find_fn(self.mir, m.group(1))
            cands = [c for c in cands if "Phase<S>" in c["params"]]
            if len(cands) != 1:
                raise Unsupported("cannot resolve callee " + callee)
            # the callee works on the same self
            sub_calls_before = len(self.calls)
            ret, fields = self.run(cands[0], cargs, env["self.fields"])
            env["self.fields"] = fields
            # move the callee's calls into this path's list
            calls.extend(self.calls[sub_calls_before:])
            del self.calls[sub_calls_before:]
            return ret
        raise Unsupported("call to " + callee)


def split_args(s):
    out, depth, cur = [], 0, ""
    for ch in s:
        if ch in "(<[":
            depth += 1
        if ch in ")>]":
            depth -= 1
        if ch == "," and depth == 0:
            out.append(cur)
            cur = ""
        else:
            cur += ch
    if cur.strip():
        out.append(cur)
    return out


def ite(c, a, b):
    if a == b:
        return a
    return "(ite %s %s %s)" % (c, a, b)


def fp_const(x):
    import struct
    b = struct.unpack("<Q", struct.pack("<d", x))[0]
    return "(fp #b%s #b%s #b%s)" % (format(b >> 63, "01b"), format((b >> 52) & 0x7ff, "011b"), format(b & ((1 << 52) - 1), "052b"))


def fmod(x, m):
    """C fmod for a power-of-two modulus m > 0 and finite x: x - m*trunc(x/m); all operations exact."""
    return "(fp.sub RNE {x} (fp.mul RNE {m} (fp.roundToIntegral RTZ (fp.div RNE {x} {m}))))".format(x=x, m=m)


# ----------------------------------------------------------------------------------------------
# queries
# ----------------------------------------------------------------------------------------------
def solver_run(smt, solver="z3", timeout=600):
    path = os.path.join(BUILD, "phase_smt_query.smt2")
    os.makedirs(BUILD, exist_ok=True)
    with open(path, "w") as f:
        f.write(smt)
    cmd = {"z3": ["z3", "-T:%d" % timeout, path], "z3-new": ["z3-new", "-T:%d" % timeout, path],
           "cvc5": ["cvc5", "--lang", "smt2", "--tlimit=%d" % (timeout * 1000), "--produce-models", path]}[solver]
    t0 = time.time()
    try:
        p = subprocess.run(cmd, stdout=subprocess.PIPE, stderr=subprocess.STDOUT, text=True, timeout=timeout + 30)
        out = p.stdout
    except subprocess.TimeoutExpired:
        out = "timeout"
    return out, time.time() - t0


def parse_model_bits(out, names):
    vals = {}
    for n in names:
        m = re.search(r"\(define-fun %s \(\) \(_ FloatingPoint 11 53\)\s+\(fp #b([01]) #b([01]+) #(b[01]+|x[0-9a-f]+)\)" % re.escape(n), out)
        if m:
            man = m.group(3)
            manbits = man[1:] if man[0] == "b" else format(int(man[1:], 16), "052b")
            vals[n] = int(m.group(1) + m.group(2) + manbits, 2)
            continue
        m = re.search(r"\(define-fun %s \(\) \(_ FloatingPoint 11 53\)\s+\(_ ([+-])(zero|oo|NaN) 11 53\)" % re.escape(n), out)
        if m:
            vals[n] = {"+zero": 0, "-zero": 1 << 63, "+oo": 0x7ff << 52, "-oo": (0xfff << 52)}.get(m.group(1) + m.group(2), 0x7ff8 << 48)
    return vals


def check(mir=None, log=print):
    """Returns dict(status=pass|fail|inconclusive, queries=[...], counterexample=..., functions=[...])."""
    res = {"status": "inconclusive", "queries": [], "functions": [], "mir_dump_s": None}
    try:
        if mir is None:
            mir, dt = dump_mir()
            res["mir_dump_s"] = round(dt, 1)
        fns = [f for f in find_fn(mir, "next_phase_wrapped_to") if "Phase<S>" in f["params"]]
        if len(fns) != 1:
            raise Unsupported("expected exactly one Phase::next_phase_wrapped_to in the MIR dump, found %d" % len(fns))
        nexts = [f for f in find_fn(mir, "next_phase") if "Phase<S>" in f["params"]]
        if len(nexts) != 1:
            raise Unsupported("expected exactly one Phase::next_phase")
        res["functions"] = ["dasp_signal::Phase::next_phase_wrapped_to (MIR)", "dasp_signal::Phase::next_phase (MIR, callee inlined)"]
        cases = []
        # case 1: next_phase_wrapped_to(self, m) with m in {1.0, 65536.0}
        for mval in (1.0, 65536.0):
            sx = Sym(mir)
            ret, fields = sx.run(fns[0], [("selfref",), fp_const(mval)], {0: ("stepfield",), 1: "p"})
            cases.append(("next_phase_wrapped_to(m=%g)" % mval, sx, ret, fields, mval))
        # case 2: next_phase(self)
        sx = Sym(mir)
        ret, fields = sx.run(nexts[0], [("selfref",)], {0: ("stepfield",), 1: "p"})
        cases.append(("next_phase()", sx, ret, fields, 1.0))
        all_ok = True
        for (label, sx, ret, fields, mval) in cases:
            # (C) structural: exactly one Step::step call on field 0
            if sx.path_call_mismatch or len(sx.calls) != 1 or sx.calls[0][1] != [("fieldref", 0)]:
                res["queries"].append({"query": label + " (C) one Step::step call on the phase's step field", "result": "VIOLATED",
                                       "calls": str(sx.calls)})
                res["status"] = "fail"
                res["counterexample"] = {"kind": "structural", "what": "Step::step is called %d times / on the wrong field" % len(sx.calls)}
                return res
            res["queries"].append({"query": label + " (C) exactly one Step::step call on the phase's step field", "result": "holds (structural)"})
            step = [d for d in sx.decls][0].split()[1]
            pnew = fields[1]
            if not isinstance(ret, str) or not isinstance(pnew, str):
                raise Unsupported("non-float result")
            m = fp_const(mval)
            pre = ["(declare-const p (_ FloatingPoint 11 53))"] + sx.decls + [
                "(assert (fp.leq %s p))" % fp_const(0.0), "(assert (fp.lt p %s))" % m,
                "(assert (fp.leq %s %s))" % (fp_const(0.0), step), "(assert (not (fp.isInfinite %s)))" % step,
                "(assert (not (fp.isNaN %s)))" % step,
                "(define-fun ret () (_ FloatingPoint 11 53) %s)" % ret,
                "(define-fun pnew () (_ FloatingPoint 11 53) %s)" % pnew,
                "(define-fun t () (_ FloatingPoint 11 53) (fp.add RNE p %s))" % step,
                "(define-fun d () (_ FloatingPoint 11 53) (fp.sub RNE t pnew))",
                "(define-fun q () (_ FloatingPoint 11 53) (fp.div RNE d %s))" % m,
            ]
            props = {
                "(A) returns the stored phase": "(fp.eq ret p)",
                "(B1) new phase in [0, m)": "(and (fp.leq %s pnew) (fp.lt pnew %s))" % (fp_const(0.0), m),
                "(B2) (p+step) - p' is a non-negative integer multiple of m, and p' + that == p+step":
                    "(and (fp.geq q %s) (fp.eq (fp.roundToIntegral RTZ q) q) (fp.eq (fp.add RNE pnew d) t))" % fp_const(0.0),
            }
            for pname, pexpr in props.items():
                base = "(set-logic QF_FP)\n(set-option :produce-models true)\n" + "\n".join(pre) + "\n(assert (not %s))\n(check-sat)\n" % pexpr
                # cvc5 decides the integrality query in ~20 s where z3 4.8.12 needs ~140 s and z3 5.1 > 300 s;
                # z3 is run as a second opinion on the cheap queries (diff of two solvers per encoding)
                verdicts = {}
                for solver in (["cvc5", "z3"] if not pname.startswith("(B2)") else ["cvc5"]):
                    out, dt = solver_run(base, solver, timeout=900)
                    first = out.strip().splitlines()[0].strip() if out.strip() else "?"
                    if first not in ("sat", "unsat"):
                        first = "unknown(" + first[:40] + ")"
                    verdicts[solver] = (first, dt)
                vs = set(v[0] for v in verdicts.values())
                if len(vs) > 1 and {"sat", "unsat"} <= vs:
                    verdict = "solvers-disagree"
                elif "sat" in vs:
                    verdict = "sat"
                elif vs == {"unsat"}:
                    verdict = "unsat"
                else:
                    verdict = "unknown"
                q = {"query": "%s %s" % (label, pname), "solvers": {k: {"result": v[0], "time_s": round(v[1], 2)} for k, v in verdicts.items()},
                     "result": verdict}
                res["queries"].append(q)
                log("  phase_smt: %-86s %s %s" % (q["query"][:86], verdict, " ".join("%s=%.1fs" % (k, v[1]) for k, v in verdicts.items())))
                if verdict == "sat":
                    sat_solver = [k for k, v in verdicts.items() if v[0] == "sat"][0]
                    out, dt = solver_run(base + "(get-model)\n", sat_solver, timeout=900)
                    vals = parse_model_bits(out, ["p", step])
                    res["status"] = "fail"
                    res["counterexample"] = {"kind": "model", "query": q["query"], "p_bits": vals.get("p"), "step_bits": vals.get(step), "m": mval}
                    return res
                if verdict != "unsat":
                    all_ok = False
        res["status"] = "pass" if all_ok else "inconclusive"
        return res
    except Unsupported as e:
        res["status"] = "inconclusive"
        res["reason"] = "encoder: " + str(e)
        return res


# ----------------------------------------------------------------------------------------------
# native replay
# ----------------------------------------------------------------------------------------------
REPLAY_MAIN = r'''
// Native replay of a phase_smt counterexample against the real dasp_signal (hook Phase::verif_from_state).
use dasp_signal::{Phase, Step};
struct One(f64, usize);
impl Step for One { fn step(&mut self) -> f64 { self.1 += 1; self.0 } }
fn main() {
    let a: Vec<String> = std::env::args().collect();
    let p = f64::from_bits(u64::from_str_radix(&a[1], 16).unwrap());
    let s = f64::from_bits(u64::from_str_radix(&a[2], 16).unwrap());
    let m: f64 = a[3].parse().unwrap();
    let mut ph = Phase::verif_from_state(One(s, 0), p);
    let ret = if m == 1.0 { ph.next_phase() } else { ph.next_phase_wrapped_to(m) };
    let pn = ph.verif_next();
    let t = p + s;
    let d = t - pn;
    let q = d / m;
    let ok = ret == p && pn >= 0.0 && pn < m && q >= 0.0 && q.trunc() == q && pn + d == t;
    println!("p={:e} step={:e} m={} -> ret={:e} new={:e} ok={}", p, s, m, ret, pn, ok);
    std::process::exit(if ok { 0 } else { 1 });
}
'''


def replay(cx, log=print):
    """Run the counterexample natively. Returns (reproduced, output)."""
    d = os.path.join(BUILD, "replay_phase")
    shutil.rmtree(d, ignore_errors=True)
    os.makedirs(os.path.join(d, "src"))
    with open(os.path.join(d, "Cargo.toml"), "w") as f:
        f.write('[package]\nname = "replay_phase"\nversion = "0.0.0"\nedition = "2021"\n[workspace]\n[dependencies]\n'
                'dasp_signal = { path = "%s/dasp_signal" }\n' % REPO)
    shutil.copy(os.path.join(REPO, "Cargo.lock"), d)
    with open(os.path.join(d, "src", "main.rs"), "w") as f:
        f.write(REPLAY_MAIN)
    env = dict(os.environ)
    env["CARGO_NET_OFFLINE"] = "true"
    env["RUSTFLAGS"] = "--cfg rustaudio_dasp_verif"
    if cx.get("kind") != "model" or cx.get("p_bits") is None or cx.get("step_bits") is None:
        return None, "structural counterexample (no concrete values)"
    cmd = ["cargo", "run", "--offline", "--quiet", "--", "%x" % cx["p_bits"], "%x" % cx["step_bits"], "%r" % cx["m"]]
    p = subprocess.run(cmd, cwd=d, env=env, stdout=subprocess.PIPE, stderr=subprocess.STDOUT, text=True, timeout=900)
    shutil.rmtree(os.path.join(d, "target"), ignore_errors=True)
    return p.returncode == 1, p.stdout[-800:]


if __name__ == "__main__":
    r = check()
    import json
    print(json.dumps(r, indent=1))
    if r["status"] == "fail":
        print(replay(r["counterexample"]))
