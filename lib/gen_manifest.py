#!/usr/bin/env python3
"""Regenerate /verif/MANIFEST.json from lib/specs.py (run after editing specs)."""
import json
import os
import subprocess
import sys

VERIF = os.path.dirname(os.path.dirname(os.path.abspath(__file__)))
sys.path.insert(0, os.path.join(VERIF, "lib"))
from specs import PROPS, NOT_APPLICABLE, PENDING  # noqa: E402


def hook_commits():
    try:
        out = subprocess.check_output(["git", "-C", "/repo", "log", "--format=%h %s"], text=True)
    except Exception:
        return []
    return [l.split()[0] for l in out.splitlines() if l.split(" ", 1)[1].startswith("verif-hook:")]


checks = []
for pid in sorted(PROPS):
    P = PROPS[pid]
    checks.append({
        "property_id": pid,
        "quick_cmd": "./check %s --tier quick" % pid,
        "thorough_cmd": "./check %s --tier thorough" % pid,
        "evidence_file": "/verif/evidence/%s.json" % pid,
        "replay_cmd_template": "./check %s --replay {path}" % pid,
        "engine": "kani-cbmc",
        "level_claimed": {
            "category": "model_checking",
            "text": P.claim,
            "design_ref": P.design_ref,
        },
        "level_note": P.note,
        "technique": ("bounded symbolic execution of the compiled dasp code (Kani 0.68 -> CBMC 6.11, CaDiCaL SAT): "
                      "kani::any() inputs/states/schedules, assertions against an independent oracle, unwinding "
                      "assertions on, counterexamples replayed natively"
                      + ("; plus MIR -> SMT-LIB (FloatingPoint) symbolic execution of the phase accumulator decided by "
                         "cvc5 / z3 (lib/phase_smt.py) for the clause Kani's float `%` model cannot reach"
                         if "phase_smt" in getattr(P, "extra_engines", []) else "")),
    })

na = [{"property_id": k, "reason": v} for k, v in sorted(NOT_APPLICABLE.items())]
na += [{"property_id": k, "reason": v} for k, v in sorted(PENDING.items()) if k not in PROPS]

m = {
    "version": 1,
    "setup_cmd": "./check --setup",
    "hooks": {
        "guard": "rustaudio_dasp_verif",
        "enable": "RUSTFLAGS='--cfg rustaudio_dasp_verif' (set by ./check for every cargo kani invocation)",
        "baseline_off_cmd": "cd /repo && cargo test --workspace --no-fail-fast --offline",
        "source_commits": hook_commits(),
        "add_only": True,
    },
    "engines": [{
        "name": "mir-smt",
        "path": "/verif/lib/phase_smt.py",
        "serves_properties": [p for p in sorted(PROPS) if "phase_smt" in getattr(PROPS[p], "extra_engines", [])],
        "kind_free_text": "symbolic interpreter for loop-free MIR (dumped from /repo with the nightly toolchain on every run) "
                          "emitting SMT-LIB QF_FP; cvc5 1.0 decides, z3 4.8.12 cross-checks the cheap queries; models are "
                          "replayed natively through the Phase::verif_from_state hook before a violation is reported",
    }, {
        "name": "kani-cbmc",
        "path": "/verif/check",
        "serves_properties": sorted(PROPS),
        "kind_free_text": "Kani 0.68.0 proof harnesses (/verif/harness, path deps on /repo) decided by CBMC 6.11.0 + CaDiCaL; "
                          "python runner groups harnesses per cargo-kani invocation, parses per-harness verdicts, "
                          "enforces vacuity covers / unwinding assertions, extracts concrete counterexamples "
                          "(-Z concrete-playback) and replays them natively before reporting",
    }],
    "checks": checks,
    "not_applicable": na,
    "notes": "Exit codes of ./check: 0 verified within bounds; 1 VIOLATION (solver counterexample, natively replayed); "
             "2 inconclusive (build failure / timeout / out of memory / unwinding bound too small / vacuous harness / "
             "non-reproducing counterexample). Fixed defects are listed in known_findings.json.",
}
with open(os.path.join(VERIF, "MANIFEST.json"), "w") as f:
    json.dump(m, f, indent=1)
print("MANIFEST.json: %d checks, %d not_applicable" % (len(checks), len(na)))
