"""Invoke cargo-kani on the harness crate, one process per harness, and parse its verdicts.

The deciding step is CBMC's SAT/SMT verdict over the goto-program Kani compiles from the
*current* /repo working tree (path dependencies).  Nothing here samples or enumerates inputs.
"""
import json
import os
import re
import resource
import shutil
import signal
import subprocess
import time
from concurrent.futures import ThreadPoolExecutor

VERIF = os.path.dirname(os.path.dirname(os.path.abspath(__file__)))
BUILD = os.environ.get("VERIF_BUILD") or os.path.join(VERIF, ".build")
GUARD_CFG = "--cfg rustaudio_dasp_verif"


def base_env(profile):
    env = dict(os.environ)
    env["CARGO_NET_OFFLINE"] = "true"
    env["RUSTFLAGS"] = GUARD_CFG
    env.pop("RUSTUP_TOOLCHAIN", None)
    if profile == "release":
        # "release semantics": debug assertions and overflow panics off, same code otherwise
        env["CARGO_PROFILE_DEV_DEBUG_ASSERTIONS"] = "false"
        env["CARGO_PROFILE_DEV_OVERFLOW_CHECKS"] = "false"
    return env


REPO = os.environ.get("VERIF_REPO") or "/repo"
_materialized = {}


def crate_dir(crate):
    """The harness crate directory.  With VERIF_REPO=<dir> (development aid: run a long tier against a
    snapshot copy of the repository while /repo itself is in use) the crates are materialised under
    BUILD/crates with their path dependencies rewritten; the registered commands never set it."""
    if REPO == "/repo":
        return os.path.join(VERIF, crate)
    if crate in _materialized:
        return _materialized[crate]
    root = os.path.join(BUILD, "crates")
    for c in ("harness", "harness_nostd"):
        dst = os.path.join(root, c)
        shutil.rmtree(dst, ignore_errors=True)
        os.makedirs(dst)
        src = os.path.join(VERIF, c)
        for fn in ("Cargo.toml", "Cargo.lock"):
            with open(os.path.join(src, fn)) as f:
                txt = f.read()
            with open(os.path.join(dst, fn), "w") as f:
                f.write(txt.replace('"/repo/', '"%s/' % REPO))
        if os.path.isdir(os.path.join(src, "src")):
            shutil.copytree(os.path.join(src, "src"), os.path.join(dst, "src"))
        _materialized[c] = dst
    return _materialized[crate]


def target_dir(crate, profile):
    return os.path.join(BUILD, "kani-%s-%s" % (crate, profile))


def _limits(mem_gb):
    def f():
        os.setsid()
        if mem_gb:
            b = int(mem_gb * (1 << 30))
            resource.setrlimit(resource.RLIMIT_AS, (b, b))
    return f


def run_cmd(cmd, cwd, env, timeout, mem_gb=None, log=None):
    """Run, kill the whole process group on timeout. Returns (rc, output, wall, timed_out)."""
    t0 = time.time()
    p = subprocess.Popen(cmd, cwd=cwd, env=env, stdout=subprocess.PIPE, stderr=subprocess.STDOUT,
                         preexec_fn=_limits(mem_gb), text=True, errors="replace")
    timed_out = False
    try:
        out, _ = p.communicate(timeout=timeout)
    except subprocess.TimeoutExpired:
        timed_out = True
        try:
            os.killpg(p.pid, signal.SIGKILL)
        except ProcessLookupError:
            pass
        out, _ = p.communicate()
    wall = time.time() - t0
    if log:
        os.makedirs(os.path.dirname(log), exist_ok=True)
        with open(log, "w") as f:
            f.write("$ " + " ".join(cmd) + "\n")
            f.write(out)
    return p.returncode, out, wall, timed_out


def clean_harness_builds(crate, profile, pkg):
    """Remove per-invocation build dirs of the harness crate (they accumulate one per harness)."""
    root = os.path.join(target_dir(crate, profile), "kani", "x86_64-unknown-linux-gnu", "debug", "build", pkg)
    shutil.rmtree(root, ignore_errors=True)


def _list_cache_key(crate, profile, features):
    import hashlib
    h = hashlib.sha256()
    h.update(("%s|%s|%s" % (crate, profile, ",".join(features))).encode())
    roots = [os.path.join(crate_dir("harness"), "src"), os.path.join(crate_dir(crate), "Cargo.toml")]
    for root in roots:
        if os.path.isdir(root):
            for dp, dn, fns in sorted(os.walk(root)):
                for fn in sorted(fns):
                    fp = os.path.join(dp, fn)
                    h.update(fp.encode())
                    with open(fp, "rb") as f:
                        h.update(f.read())
        else:
            with open(root, "rb") as f:
                h.update(f.read())
    return h.hexdigest()[:24]


def codegen(crate, profile, features, pkg, timeout=1800, use_cache=True):
    """Compile all harnesses of the selected features; return (ok, harness metadata list, output).
    The harness *list* depends only on the harness crate's own sources, so it is cached; the code
    under /repo is (re)compiled by every verification run regardless."""
    cache = os.path.join(BUILD, "cache", "list-%s.json" % _list_cache_key(crate, profile, features))
    if use_cache and os.path.exists(cache):
        with open(cache) as f:
            return True, json.load(f), "(harness list from cache)", 0.0
    clean_harness_builds(crate, profile, pkg)
    cmd = ["cargo", "kani", "--target-dir", target_dir(crate, profile), "-Z", "stubbing", "--only-codegen"]
    if features:
        cmd += ["--features", ",".join(features)]
    rc, out, wall, to = run_cmd(cmd, crate_dir(crate), base_env(profile), timeout,
                                log=os.path.join(BUILD, "logs", "codegen-%s-%s.log" % (crate, profile)))
    if rc != 0 or to:
        return False, [], out, wall
    root = os.path.join(target_dir(crate, profile), "kani", "x86_64-unknown-linux-gnu", "debug", "build", pkg)
    metas = []
    for dp, _, fns in os.walk(root):
        for fn in fns:
            if fn.endswith(".kani-metadata.json"):
                metas.append(os.path.join(dp, fn))
    harnesses = []
    if metas:
        newest = max(metas, key=os.path.getmtime)
        with open(newest) as f:
            md = json.load(f)
        for h in md.get("proof_harnesses", []):
            harnesses.append({
                "name": h["pretty_name"],
                "file": h["original_file"],
                "line": h["original_start_line"],
                "unwind": h["attributes"].get("unwind_value"),
                "stubs": ["%s -> %s" % (s.get("original"), s.get("replacement")) for s in h["attributes"].get("stubs", [])],
            })
    if harnesses:
        os.makedirs(os.path.dirname(cache), exist_ok=True)
        with open(cache, "w") as f:
            json.dump(harnesses, f)
    return True, harnesses, out, wall


CHECK_RE = re.compile(r"^Check (\d+): (.+)\n\t - Status: (\S+)\n\t - Description: \"(.*)\"\n\t - Location: (.*)$", re.M)
CHECK_NOLOC_RE = re.compile(r"^Check (\d+): (.+)\n\t - Status: (\S+)\n\t - Description: \"(.*)\"$", re.M)


def parse_output(out):
    r = {"verdict": None, "checks_total": 0, "checks_failed": 0, "covers_total": 0, "covers_sat": 0,
         "failed": [], "covers": [], "solver_s": None, "unreachable": 0, "undetermined": 0,
         "stubs_confirmed": [], "vcc": None}
    m = re.search(r"^VERIFICATION:- (\w+)", out, re.M)
    if m:
        r["verdict"] = m.group(1)
    m = re.search(r"\*\* (\d+) of (\d+) failed(?: \((.*)\))?", out)
    if m:
        r["checks_failed"] = int(m.group(1))
        r["checks_total"] = int(m.group(2))
        extra = m.group(3) or ""
        mm = re.search(r"(\d+) unreachable", extra)
        if mm:
            r["unreachable"] = int(mm.group(1))
        mm = re.search(r"(\d+) undetermined", extra)
        if mm:
            r["undetermined"] = int(mm.group(1))
    m = re.search(r"\*\* (\d+) of (\d+) cover properties satisfied", out)
    if m:
        r["covers_sat"] = int(m.group(1))
        r["covers_total"] = int(m.group(2))
    m = re.search(r"Verification Time: ([\d.]+)s", out)
    if m:
        r["solver_s"] = float(m.group(1))
    m = re.search(r"Generated (\d+) VCC\(s\), (\d+) remaining after simplification", out)
    if m:
        r["vcc"] = [int(m.group(1)), int(m.group(2))]
    seen = set()
    for rx in (CHECK_RE, CHECK_NOLOC_RE):
        for m in rx.finditer(out):
            num, name, status, desc = m.group(1), m.group(2), m.group(3), m.group(4)
            if num in seen:
                continue
            seen.add(num)
            loc = m.group(5) if rx is CHECK_RE else ""
            if ".cover." in name:
                r["covers"].append({"desc": desc, "status": status})
            elif status == "FAILURE":
                r["failed"].append({"check": name, "desc": desc, "loc": loc})
    for m in re.finditer(r"^\s*- Stub: (.*)$", out, re.M):
        r["stubs_confirmed"].append(m.group(1).strip())
    r["oom"] = bool(re.search(r"out of memory|Out of memory|std::bad_alloc|memory exhausted|SIGKILL|CBMC failed|signal: 9", out))
    return r


def run_harness(h, tier_timeout):
    """Single harness, own cargo-kani process (used for replay extraction and heavy harnesses)."""
    cmd = ["cargo", "kani", "--target-dir", target_dir(h["crate"], h["profile"]), "-Z", "stubbing"]
    if h["features"]:
        cmd += ["--features", ",".join(h["features"])]
    cmd += ["--exact", "--harness", h["name"]] + list(h.get("flags", []))
    timeout = h.get("timeout") or tier_timeout
    log = os.path.join(BUILD, "logs", h["prop"], "%s-%s%s.log" % (h["name"].replace("::", "."), h["profile"], h.get("log_suffix", "")))
    rc, out, wall, to = run_cmd(cmd, crate_dir(h["crate"]), base_env(h["profile"]), timeout,
                                mem_gb=h.get("mem_gb", 24), log=log)
    r = parse_output(out)
    r.update({"name": h["name"], "profile": h["profile"], "crate": h["crate"], "rc": rc, "wall_s": round(wall, 2),
              "timed_out": to, "log": log, "cmd": " ".join(cmd)})
    return r


def run_group(hs, jobs, tier_timeout, progress=None):
    """All harnesses of one (crate, profile, features, flags, timeout, mem) group in ONE cargo-kani
    process: one compile, `-j jobs` solver processes, per-harness result files
    (--output-into-files), per-harness timeout (--harness-timeout)."""
    h0 = hs[0]
    crate, profile = h0["crate"], h0["profile"]
    tdir = target_dir(crate, profile)
    resdir = os.path.join(tdir, "result_output_dir")
    shutil.rmtree(resdir, ignore_errors=True)
    timeout = h0.get("timeout") or tier_timeout
    cmd = ["cargo", "kani", "--target-dir", tdir, "-Z", "stubbing"]
    if h0["features"]:
        cmd += ["--features", ",".join(h0["features"])]
    cmd += ["-Z", "unstable-options", "--output-into-files", "--output-format", "terse",
            "--harness-timeout", "%ds" % timeout, "-j", str(max(1, min(jobs, len(hs)))), "--exact"]
    for h in hs:
        cmd += ["--harness", h["name"]]
    flags = list(h0.get("flags", []))
    # "-Z unstable-options" may already be in flags; harmless to repeat
    cmd += flags
    n_rounds = (len(hs) + jobs - 1) // max(1, jobs)
    overall = timeout * n_rounds + 600
    gtag = re.sub(r"[^A-Za-z0-9]+", "_", "_".join(flags))[:40]
    log = os.path.join(BUILD, "logs", h0["prop"], "group-%s-%s-%s-%d.log" % (crate, profile, gtag, timeout))
    rc, out, wall, to = run_cmd(cmd, crate_dir(crate), base_env(profile), overall, mem_gb=h0.get("mem_gb", 24), log=log)
    res = []
    build_failed = (rc != 0 and not os.path.isdir(resdir)) or bool(re.search(r"^error(\[E\d+\])?:", out, re.M) and not os.path.isdir(resdir))
    for h in hs:
        f = os.path.join(resdir, h["name"])
        hl = os.path.join(BUILD, "logs", h["prop"], "%s-%s.log" % (h["name"].replace("::", "."), profile))
        os.makedirs(os.path.dirname(hl), exist_ok=True)
        if os.path.exists(f):
            with open(f, errors="replace") as fh:
                hout = fh.read()
            shutil.copy(f, hl)
        else:
            hout = ""
            with open(hl, "w") as fh:
                fh.write("no per-harness result file; group log: %s\n" % log)
        r = parse_output(hout)
        harness_to = bool(re.search(r"timed out|TIMEOUT|Timeout", hout)) and r["verdict"] != "SUCCESSFUL"
        r.update({"name": h["name"], "profile": profile, "crate": crate, "rc": rc,
                  "wall_s": r["solver_s"] if r["solver_s"] is not None else 0.0,
                  "timed_out": harness_to or (to and r["verdict"] is None), "log": hl, "cmd": " ".join(cmd[:12]) + " ...",
                  "spec": h})
        if not hout and not to:
            r["oom"] = r["oom"] or bool(re.search(r"out of memory|bad_alloc|Killed", out))
            r["group_tail"] = out[-1500:]
            r["build_failed"] = build_failed
        if progress:
            progress(r)
        res.append(r)
    return res, wall


def run_pool(hs, jobs, tier_timeout, progress=None):
    """Group by invocation signature and run the groups one after the other."""
    groups = {}
    for h in hs:
        key = (h["crate"], h["profile"], tuple(h["features"]), tuple(h.get("flags", [])), h.get("timeout"), h.get("mem_gb"))
        groups.setdefault(key, []).append(h)
    res = []
    for key, g in groups.items():
        r, wall = run_group(g, min(jobs, g[0].get("max_jobs", jobs)), tier_timeout, progress)
        res += r
    return res
