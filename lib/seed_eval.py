#!/usr/bin/env python3
"""Confirm a seeded change delivered by an independent sub-agent and run the checks against it.

usage: lib/seed_eval.py <seed-id> <property> <worktree> "<demo cargo command>" [--props C04,C07] [--tier quick]

1. in the scratch worktree (change applied): the demo must FAIL; the existing suite must PASS;
   with the change reverse-applied the demo must PASS; the change is re-applied.
2. the patch is applied to /repo (git apply), the listed checks are run, /repo is restored
   (git checkout -- .) whatever happens.
3. /verif/seeded/<seed-id>/{patch.diff, demo file(s), meta.json} are written.
"""
import json
import os
import shutil
import subprocess
import sys
import time

VERIF = os.path.dirname(os.path.dirname(os.path.abspath(__file__)))


def sh(cmd, cwd, timeout=3600, env=None):
    e = dict(os.environ)
    e["CARGO_NET_OFFLINE"] = "true"
    if env:
        e.update(env)
    p = subprocess.run(cmd, shell=True, cwd=cwd, stdout=subprocess.PIPE, stderr=subprocess.STDOUT, text=True,
                       timeout=timeout, env=e)
    return p.returncode, p.stdout


def main():
    a = sys.argv[1:]
    seed, prop, wt, demo_cmd = a[0], a[1], a[2], a[3]
    props = [prop]
    tier = "quick"
    skip_confirm = False
    snapshot = False
    i = 4
    while i < len(a):
        if a[i] == "--props":
            props = a[i + 1].split(",")
            i += 2
        elif a[i] == "--tier":
            tier = a[i + 1]
            i += 2
        elif a[i] == "--skip-confirm":
            skip_confirm = True
            i += 1
        elif a[i] == "--snapshot":
            # evaluate on a patched COPY of /repo's HEAD (git archive) with its own build dir, so /repo and the
            # committed evidence stay untouched (used while /repo must stay clean)
            snapshot = True
            i += 1
        else:
            i += 1
    patch = os.path.join(wt, "patch.diff")
    meta = {"seed": seed, "breaks_property": prop, "worktree": wt, "demo_cmd": demo_cmd, "ran": []}
    # untracked demo files
    rc, out = sh("git status --porcelain -uall", wt)
    demos = [l[3:] for l in out.splitlines() if l.startswith("??") and l.strip().endswith(".rs")]
    meta["demo_files"] = demos
    if not skip_confirm:
        rc, out = sh("git apply -R --check patch.diff", wt)
        if rc != 0:
            print("patch is not applied in the worktree (or does not reverse cleanly):", out[-500:])
            return 2
        rc1, out1 = sh(demo_cmd, wt)
        meta["ran"].append({"cmd": demo_cmd + "   # with the change", "exit": rc1, "tail": out1[-600:]})
        print("demo with change: exit", rc1)
        # existing suite with the change, demo moved aside
        aside = []
        for d in demos:
            shutil.move(os.path.join(wt, d), os.path.join(wt, d + ".aside"))
            aside.append(d)
        rc2, out2 = sh("cargo test --workspace --offline 2>&1 | grep -E '^test result|FAILED|panicked|error' | sort | uniq -c | tail -15", wt)
        rcs, outs = sh("cargo test --workspace --offline > /dev/null 2>&1; echo $?", wt)
        for d in aside:
            shutil.move(os.path.join(wt, d + ".aside"), os.path.join(wt, d))
        suite_ok = outs.strip().endswith("0")
        meta["ran"].append({"cmd": "cargo test --workspace --offline   # with the change, demo aside", "exit": 0 if suite_ok else 1, "tail": out2[-800:]})
        print("existing suite with change: ", "PASS" if suite_ok else "FAIL")
        sh("git apply -R patch.diff", wt)
        rc3, out3 = sh(demo_cmd, wt)
        sh("git apply patch.diff", wt)
        meta["ran"].append({"cmd": demo_cmd + "   # on the unchanged code", "exit": rc3, "tail": out3[-400:]})
        print("demo without change: exit", rc3)
        meta["confirmed"] = bool(rc1 != 0 and suite_ok and rc3 == 0)
        if not meta["confirmed"]:
            print("NOT CONFIRMED - not kept")
            print(json.dumps(meta, indent=1)[-3000:])
            return 3
    if snapshot:
        snap = os.path.join(VERIF, ".build", "repo_seed")
        results = {}
        # fresh mtimes on every file: tar restores the commit time, and cargo would otherwise keep artifacts of a
        # crate that an EARLIER seed had patched (same path, "older" source) - observed as a spurious failure
        sh("rm -rf %s && mkdir -p %s && git -C /repo archive HEAD | tar -x -C %s && cp /repo/Cargo.lock %s/ && find %s -type f -exec touch {} +" % (snap, snap, snap, snap, snap), VERIF)
        rc, out = sh("patch -p1 < %s" % patch, snap)
        if rc != 0:
            print("patch does not apply to the snapshot:", out)
            return 2
        env = {"VERIF_REPO": snap, "VERIF_BUILD": os.path.join(VERIF, ".build", "bg2")}
        for p in props:
            t0 = time.time()
            rc, out = sh("./check %s --tier %s" % (p, tier), VERIF, timeout=7200, env=env)
            lines = [l for l in out.splitlines() if l.startswith("VIOLATION") or "counterexample in" in l or l.startswith("[" + p + "]")
                     or "UNDECIDED" in l or "INCONCLUSIVE" in l]
            results[p] = {"exit": rc, "wall_s": round(time.time() - t0), "lines": lines[-12:], "on": "patched snapshot of /repo HEAD"}
            print(p, "exit", rc)
            for l in lines[-8:]:
                print("   ", l)
        sh("rm -rf %s" % snap, VERIF)
        return finish(meta, results, seed, patch, demos, wt)
    # run the checks against it
    rc, out = sh("git status --porcelain", "/repo")
    if out.strip():
        print("/repo is not clean:", out)
        return 2
    results = {}
    try:
        rc, out = sh("git apply %s" % patch, "/repo")
        if rc != 0:
            print("patch does not apply to /repo:", out)
            return 2
        for p in props:
            t0 = time.time()
            rc, out = sh("./check %s --tier %s" % (p, tier), VERIF, timeout=7200)
            lines = [l for l in out.splitlines() if l.startswith("VIOLATION") or "counterexample in" in l or l.startswith("[" + p + "]")
                     or "UNDECIDED" in l or "INCONCLUSIVE" in l]
            results[p] = {"exit": rc, "wall_s": round(time.time() - t0), "lines": lines[-12:]}
            print(p, "exit", rc)
            for l in lines[-8:]:
                print("   ", l)
    finally:
        sh("git checkout -- .", "/repo")
    return finish(meta, results, seed, patch, demos, wt)


def finish(meta, results, seed, patch, demos, wt):
    meta["checks"] = results
    meta["caught_by"] = [p for p, r in results.items() if r["exit"] == 1]
    d = os.path.join(VERIF, "seeded", seed)
    os.makedirs(d, exist_ok=True)
    shutil.copy(patch, os.path.join(d, "patch.diff"))
    for f in demos:
        shutil.copy(os.path.join(wt, f), os.path.join(d, os.path.basename(f)))
    notes = os.path.join(wt, "NOTES.md")
    if os.path.exists(notes):
        shutil.copy(notes, os.path.join(d, "NOTES.md"))
        with open(notes) as fh:
            meta["needs_to_manifest"] = fh.read()[:1500]
    with open(os.path.join(d, "meta.json"), "w") as f:
        json.dump(meta, f, indent=1)
    print("saved", d, "caught_by", meta["caught_by"])
    return 0


if __name__ == "__main__":
    sys.exit(main())
