//! C11 — windowed RMS equals the true RMS of the last N frames.
//!
//! Inductive step through the cfg(rustaudio_dasp_verif) hook `Rms::verif_from_state`: the
//! pre-state is ANY window position / content and ANY consistent running sum.
use dasp_frame::Frame;
use dasp_ring_buffer::Fixed;
use dasp_rms::Rms;
use dasp_sample::{FloatSample, Sample};
use dasp_signal::rms::SignalRms;
use dasp_signal::Signal;

fn sqrt_marker_f32(x: f32) -> f32 {
    x + 1.0
}
fn sqrt_marker_f64(x: f64) -> f64 {
    x + 1.0
}

// ------------------------------------------------------------------------------------------
// structural step: f32 mono, any finite non-negative window content
// ------------------------------------------------------------------------------------------
macro_rules! step_f32 {
    ($m:ident, $n:expr) => {
        pub mod $m {
            use super::*;
            const N: usize = $n;

            /// window replacement, running-sum update, divisor, clamp, non-negativity, no NaN
            #[kani::proof]
            #[kani::unwind(8)]
            pub fn step() {
                let first: usize = kani::any();
                kani::assume(first < N);
                let mut w = [0.0f32; N];
                for i in 0..N {
                    w[i] = kani::any();
                    kani::assume(w[i] >= 0.0 && w[i] <= 1.0e30);
                }
                let sum: f32 = kani::any();
                kani::assume(sum >= 0.0 && sum <= 1.0e31);
                let x: f32 = kani::any();
                kani::assume(x.is_finite() && x.abs() <= 1.0e15);
                let mut rms: Rms<f32, [f32; N]> = Rms::verif_from_state(Fixed::from_raw_parts(first, w), sum);
                assert!(rms.window_frames() == N);
                let r = rms.next_squared(x);
                let (win, new_sum) = rms.into_parts();
                let (f2, d) = win.into_raw_parts();
                // the oldest square was replaced by x*x, everything else is untouched
                assert!(f2 == (first + 1) % N);
                // the slot of the oldest square now holds the new square; that it equals x*x is decided
                // in `square` below on inputs with short mantissas (one symbolic f32 product per side
                // costs minutes) - here the stored value itself is used so the oracle needs no product
                let sq = d[first];
                assert!(sq >= 0.0, "a square is never negative");
                let j: usize = kani::any();
                if j < N && j != first {
                    assert!(d[j] == w[j], "other window slots untouched");
                }
                // running sum: + new square - evicted square, clamped at zero
                let diff = (sum + sq) - w[first];
                let want = if diff < 0.0 { 0.0 } else { diff };
                assert!(new_sum == want, "sum' = max(0, sum + x^2 - evicted)");
                assert!(r == want / (N as f32), "mean square = sum / N");
                assert!(r >= 0.0 && !r.is_nan(), "never negative or NaN for finite input");
                kani::cover!(diff < 0.0, "rounding would have gone below zero: clamped");
                kani::cover!(first == N - 1, "wrapping window position");
                kani::cover!(true, "end");
            }

            /// the value pushed into the window is x*x (x with at most 12 significant bits, any exponent
            /// in a wide range: both products stay cheap for the SAT solver)
            #[kani::proof]
            #[kani::unwind(8)]
            pub fn square() {
                let k: i16 = kani::any();
                kani::assume(k >= -4095 && k <= 4095);
                let e: u8 = kani::any();
                kani::assume(e <= 60);
                let x = (k as f32) * f32::from_bits(((127 - 30 + e as u32) << 23)); // k * 2^(e-30)
                let first: usize = kani::any();
                kani::assume(first < N);
                let mut rms: Rms<f32, [f32; N]> = Rms::verif_from_state(Fixed::from_raw_parts(first, [0.0f32; N]), 0.0);
                let r = rms.next_squared(x);
                let (win, new_sum) = rms.into_parts();
                let (_, d) = win.into_raw_parts();
                assert!(d[first] == x * x, "the new square replaces the oldest one");
                assert!(new_sum == x * x && r == (x * x) / (N as f32));
                kani::cover!(k < 0, "negative input");
                kani::cover!(true, "end");
            }

            /// reset restores the all-zero state from any state; output then is 0
            #[kani::proof]
            #[kani::unwind(8)]
            pub fn reset() {
                let first: usize = kani::any();
                kani::assume(first < N);
                let mut w = [0.0f32; N];
                for i in 0..N {
                    w[i] = kani::any();
                }
                let sum: f32 = kani::any();
                let mut rms: Rms<f32, [f32; N]> = Rms::verif_from_state(Fixed::from_raw_parts(first, w), sum);
                rms.reset();
                assert!(rms.next_squared(0.0) == 0.0);
                let (win, s) = rms.into_parts();
                let (_, d) = win.into_raw_parts();
                assert!(s == 0.0);
                let j: usize = kani::any();
                kani::assume(j < N);
                assert!(d[j] == 0.0 && d[j].is_sign_positive(), "window zeroed");
                kani::cover!(true, "end");
            }

            /// `new` starts from a zero sum; over a zero-initialised window the first output is x^2/N
            #[kani::proof]
            #[kani::unwind(8)]
            pub fn from_new() {
                let k: i16 = kani::any();
                kani::assume(k >= -4095 && k <= 4095);
                let x = k as f32 / 64.0;
                let mut rms: Rms<f32, [f32; N]> = Rms::new(Fixed::from([0.0f32; N]));
                let r = rms.next_squared(x);
                assert!(r == (x * x) / (N as f32), "preceding silence counts as zeros");
                kani::cover!(true, "end");
            }
        }
    };
}
step_f32!(f32_n1, 1);
step_f32!(f32_n2, 2);
step_f32!(f32_n3, 3);
step_f32!(f32_n4, 4);

// ------------------------------------------------------------------------------------------
// channels are independent: [i16; 2] frames, float companion [f32; 2]
// ------------------------------------------------------------------------------------------
pub mod stereo_i16 {
    use super::*;
    const N: usize = 2;
    #[kani::proof]
    #[kani::unwind(8)]
    pub fn step() {
        let first: usize = kani::any();
        kani::assume(first < N);
        let mut w = [[0.0f32; 2]; N];
        for i in 0..N {
            w[i] = [kani::any(), kani::any()];
            kani::assume(w[i][0] >= 0.0 && w[i][0] <= 1.0 && w[i][1] >= 0.0 && w[i][1] <= 1.0);
        }
        let sum: [f32; 2] = [kani::any(), kani::any()];
        kani::assume(sum[0] >= 0.0 && sum[0] <= 4.0 && sum[1] >= 0.0 && sum[1] <= 4.0);
        let x: [i16; 2] = [kani::any(), kani::any()];
        let mut rms: Rms<[i16; 2], [[f32; 2]; N]> = Rms::verif_from_state(Fixed::from_raw_parts(first, w), sum);
        let r = rms.next_squared(x);
        let (win, new_sum) = rms.into_parts();
        let (_, d) = win.into_raw_parts();
        let c: usize = kani::any();
        kani::assume(c < 2);
        let sq = d[first][c];
        // integer formats enter through their float conversion (C02); the square itself is checked on
        // a symbolic channel only for inputs with <= 8 significant bits
        if x[c] % 128 == 0 {
            let xf = x[c].to_sample::<f32>();
            assert!(sq == xf * xf, "square of the channel's float conversion");
        }
        assert!(sq >= 0.0 && sq <= 1.0);
        let diff = (sum[c] + sq) - w[first][c];
        let want = if diff < 0.0 { 0.0 } else { diff };
        assert!(new_sum[c] == want, "per-channel running sum");
        assert!(r[c] == want / 2.0, "per-channel mean square");
        assert!(r[c] >= 0.0 && !r[c].is_nan());
        kani::cover!(c == 1, "second channel");
        kani::cover!(true, "end");
    }
}

// ------------------------------------------------------------------------------------------
// exact grid: the running sum IS the exact sum of the window's squares (integer oracle)
// ------------------------------------------------------------------------------------------
macro_rules! grid_i8 {
    ($m:ident, $n:expr, $kmax:expr) => {
        pub mod $m {
            use super::*;
            const N: usize = $n;
            const KMAX: i32 = $kmax;

            /// Inputs k/128 (k an i8 with |k| <= KMAX): squares k^2/2^14 and window sums are exactly
            /// representable in f32, so every float operation of next_squared is exact and the state
            /// must equal the integer reference bit for bit.
            #[kani::proof]
            #[kani::unwind(8)]
            pub fn step() {
                let first: usize = kani::any();
                kani::assume(first < N);
                let mut ks = [0i32; N];
                let mut w = [0.0f32; N];
                let mut isum: i32 = 0;
                for i in 0..N {
                    let k: i8 = kani::any();
                    kani::assume((k as i32) >= -KMAX && (k as i32) <= KMAX);
                    ks[i] = k as i32;
                    w[i] = (ks[i] * ks[i]) as f32 / 16384.0;
                    isum += ks[i] * ks[i];
                }
                // invariant of every reachable state on the grid: sum == exact sum of the window
                let sum = isum as f32 / 16384.0;
                let x: i8 = kani::any();
                kani::assume((x as i32) >= -KMAX && (x as i32) <= KMAX);
                let mut rms: Rms<i8, [f32; N]> = Rms::verif_from_state(Fixed::from_raw_parts(first, w), sum);
                let r = rms.next_squared(x);
                let (win, new_sum) = rms.into_parts();
                let (f2, d) = win.into_raw_parts();
                let xi = x as i32;
                let isum2 = isum - ks[first] * ks[first] + xi * xi;
                assert!(f2 == (first + 1) % N);
                assert!(d[first] == (xi * xi) as f32 / 16384.0, "oldest square replaced by the new one");
                assert!(new_sum == isum2 as f32 / 16384.0, "running sum == exact sum of the last N squares (invariant preserved)");
                assert!(r == (isum2 as f32 / 16384.0) / (N as f32), "output == mean of the last N squares");
                assert!(r >= 0.0);
                kani::cover!(xi < 0 && ks[first] != 0, "negative input evicting a non-zero square");
                kani::cover!(true, "end");
            }
        }
    };
}
grid_i8!(grid_small_n2, 2, 15);
grid_i8!(grid_small_n3, 3, 15);
#[cfg(feature = "thorough")]
grid_i8!(grid_full_n3, 3, 128);
#[cfg(feature = "thorough")]
grid_i8!(grid_full_n4, 4, 128);

// ------------------------------------------------------------------------------------------
// square root wiring and the signal adaptor
// ------------------------------------------------------------------------------------------
pub mod wiring {
    use super::*;
    const N: usize = 2;

    /// an iterator-like source that runs out (and says so): the adaptor keeps feeding the window -
    /// with the equilibrium frames the exhausted source yields - so the RMS decays to 0; it never
    /// freezes, and it keeps pulling one source frame per output
    #[kani::proof]
    #[kani::unwind(8)]
    #[kani::stub(dasp_sample::ops::f32::sqrt, super::sqrt_marker_f32)]
    pub fn adaptor_past_the_end_of_a_finite_source() {
        use crate::sigprobe::Probe;
        let ks: [i8; 3] = kani::any();
        let len: usize = kani::any();
        kani::assume(len <= 3);
        let mut src: Probe<f32, 3> = Probe::new([ks[0] as f32 / 16.0, ks[1] as f32 / 16.0, ks[2] as f32 / 16.0], len);
        let s0 = src.clone();
        let mut reference: Rms<f32, [f32; N]> = Rms::new(Fixed::from([0.0f32; N]));
        {
            let mut sig = src.by_ref().rms(Fixed::from([0.0f32; N]));
            for n in 0..5 {
                assert!(sig.is_exhausted() == (n >= len));
                let y = sig.next();
                assert!(y == reference.next(s0.frame(n)), "output n is the RMS after feeding source frame n (equilibrium past the end)");
            }
        }
        assert!(src.pulls == 5, "one source frame per output frame, exhausted or not");
        kani::cover!(len == 1, "source ends early");
        kani::cover!(true, "end");
    }

    fn any_state() -> (usize, [f32; N], f32) {
        let first: usize = kani::any();
        kani::assume(first < N);
        let w: [f32; N] = [kani::any(), kani::any()];
        kani::assume(w[0] >= 0.0 && w[0] <= 1.0e30 && w[1] >= 0.0 && w[1] <= 1.0e30);
        let sum: f32 = kani::any();
        kani::assume(sum >= 0.0 && sum <= 1.0e31);
        (first, w, sum)
    }

    /// next() == sqrt(next_squared()) and current() == sqrt(sum / N); sqrt replaced by a marker
    #[kani::proof]
    #[kani::unwind(8)]
    #[kani::stub(dasp_sample::ops::f32::sqrt, super::sqrt_marker_f32)]
    pub fn next_is_sqrt_of_next_squared() {
        let (first, w, sum) = any_state();
        let k: i8 = kani::any();
        let x: f32 = k as f32 / 16.0; // short mantissa: keeps both x*x products cheap
        let mut a: Rms<f32, [f32; N]> = Rms::verif_from_state(Fixed::from_raw_parts(first, w), sum);
        let mut b = a.clone();
        assert!(a.current() == sqrt_marker_f32(sum / 2.0), "current() == sqrt(sum / N)");
        let ra = a.next(x);
        let rb = b.next_squared(x);
        assert!(ra == sqrt_marker_f32(rb), "next() == sqrt(next_squared())");
        assert!(a.current() == ra);
        kani::cover!(true, "end");
    }

    /// the signal adaptor feeds every source frame exactly once, in order
    #[kani::proof]
    #[kani::unwind(8)]
    #[kani::stub(dasp_sample::ops::f32::sqrt, super::sqrt_marker_f32)]
    pub fn adaptor_feeds_each_frame_once() {
        let ks: [i8; 3] = kani::any();
        let xs: [f32; 3] = [ks[0] as f32 / 16.0, ks[1] as f32 / 16.0, ks[2] as f32 / 16.0];
        let mut pulls = 0usize;
        let src = dasp_signal::gen_mut(|| {
            let v = if pulls < 3 { xs[pulls] } else { 0.0 };
            pulls += 1;
            v
        });
        let mut sig = src.rms(Fixed::from([0.0f32; N]));
        let mut reference: Rms<f32, [f32; N]> = Rms::new(Fixed::from([0.0f32; N]));
        let r0 = sig.next();
        assert!(r0 == reference.next(xs[0]));
        let r1 = sig.next_squared();
        assert!(r1 == reference.next_squared(xs[1]));
        let r2 = sig.next();
        assert!(r2 == reference.next(xs[2]));
        assert!(!sig.is_exhausted());
        drop(sig);
        assert!(pulls == 3, "one source frame per output frame");
        kani::cover!(true, "end");
    }
}

