//! C20 — window shapes and the windower's chunk schedule.
use dasp_frame::Frame;
use dasp_sample::Sample;
use dasp_signal::window::{Window, Windower};
use dasp_signal::Signal;
use dasp_window::{Hann, Rectangle, Window as WindowType};

// ------------------------------------------------------------------------------------------
// window functions
// ------------------------------------------------------------------------------------------
static mut COS_ARG: f64 = 0.0;
static mut COS_RET: f64 = 0.0;
static mut COS_CALLS: u32 = 0;

/// stand-in for libm's cos: returns the value the harness chose (any value in [-1, 1], the one
/// contract of cos the property relies on) and records its argument
fn cos_marker(x: f64) -> f64 {
    unsafe {
        COS_ARG = x;
        COS_CALLS += 1;
        COS_RET
    }
}

pub mod shape {
    use super::*;

    #[kani::proof]
    #[kani::stub(dasp_window::hann::ops::f64::cos, super::cos_marker)]
    pub fn hann_f64() {
        let p: f64 = kani::any();
        kani::assume(p >= 0.0 && p <= 1.0);
        let c: f64 = kani::any();
        kani::assume(c >= -1.0 && c <= 1.0);
        unsafe {
            COS_RET = c;
            COS_CALLS = 0;
        }
        let w: f64 = <Hann as WindowType<f64>>::window(p);
        unsafe {
            assert!(COS_CALLS == 1);
            assert!(COS_ARG == p * (core::f64::consts::PI * 2.0), "cos is evaluated at 2*pi*p");
        }
        assert!(w == 0.5 * (1.0 - c), "hann(p) == 0.5 * (1 - cos(2*pi*p))");
        assert!(w >= 0.0 && w <= 1.0, "within [0, 1]");
        kani::cover!(w == 1.0, "peak");
        kani::cover!(true, "end");
    }

    /// quick tier: every phase, output formula and call structure (no recomputation of 2*pi*p)
    #[kani::proof]
    #[kani::stub(dasp_window::hann::ops::f64::cos, super::cos_marker)]
    pub fn hann_shape_any_phase() {
        let p: f64 = kani::any();
        kani::assume(p >= 0.0 && p <= 1.0);
        let c: f64 = kani::any();
        kani::assume(c >= -1.0 && c <= 1.0);
        unsafe {
            COS_RET = c;
            COS_CALLS = 0;
        }
        let w: f64 = <Hann as WindowType<f64>>::window(p);
        assert!(unsafe { COS_CALLS } == 1);
        assert!(w == 0.5 * (1.0 - c), "hann(p) == 0.5 * (1 - cos(..))");
        assert!(w >= 0.0 && w <= 1.0, "within [0, 1]");
        let q: f32 = kani::any();
        kani::assume(q >= 0.0 && q <= 1.0);
        unsafe {
            COS_CALLS = 0;
        }
        let w: f32 = <Hann as WindowType<f32>>::window(q);
        assert!(unsafe { COS_CALLS } == 1);
        assert!(w == (0.5 * (1.0 - c)) as f32);
        assert!(w >= 0.0 && w <= 1.0, "within [0, 1]");
        kani::cover!(true, "end");
    }

    /// quick tier: the argument handed to cos is 2*pi*p, at a list of concrete phases (the
    /// symbolic-phase versions below need two 53-bit multipliers and run in the thorough tier)
    #[kani::proof]
    #[kani::unwind(12)]
    #[kani::stub(dasp_window::hann::ops::f64::cos, super::cos_marker)]
    pub fn hann_cos_argument_concrete_phases() {
        const PS: [f64; 9] = [0.0, 0.1, 0.125, 0.25, 1.0 / 3.0, 0.5, 0.75, 0.9, 1.0];
        unsafe {
            COS_RET = kani::any();
            kani::assume(COS_RET >= -1.0 && COS_RET <= 1.0);
        }
        for i in 0..9 {
            let p = PS[i];
            let _ = <Hann as WindowType<f64>>::window(p);
            assert!(unsafe { COS_ARG } == p * (core::f64::consts::PI * 2.0), "cos is evaluated at 2*pi*p");
            let _ = <Hann as WindowType<f32>>::window(p as f32);
            assert!(unsafe { COS_ARG } == ((p as f32) as f64) * (core::f64::consts::PI * 2.0));
        }
        kani::cover!(true, "end");
    }

    /// thorough-tier companion of hann_f64: phases k/2^20 (few mantissa bits keep the two
    /// multiplications by 2*pi cheap); the full-f64 harness runs in the thorough tier
    #[kani::proof]
    #[kani::stub(dasp_window::hann::ops::f64::cos, super::cos_marker)]
    pub fn hann_f64_grid() {
        let k: u32 = kani::any();
        kani::assume(k <= 1 << 20);
        let p: f64 = k as f64 / 1048576.0;
        let c: f64 = kani::any();
        kani::assume(c >= -1.0 && c <= 1.0);
        unsafe {
            COS_RET = c;
            COS_CALLS = 0;
        }
        let w: f64 = <Hann as WindowType<f64>>::window(p);
        unsafe {
            assert!(COS_CALLS == 1);
            assert!(COS_ARG == p * (core::f64::consts::PI * 2.0), "cos is evaluated at 2*pi*p");
        }
        assert!(w == 0.5 * (1.0 - c), "hann(p) == 0.5 * (1 - cos(2*pi*p))");
        assert!(w >= 0.0 && w <= 1.0, "within [0, 1]");
        kani::cover!(k == 1 << 19, "p = 0.5");
        kani::cover!(true, "end");
    }

    #[kani::proof]
    #[kani::stub(dasp_window::hann::ops::f64::cos, super::cos_marker)]
    pub fn hann_f32() {
        let p: f32 = kani::any();
        kani::assume(p >= 0.0 && p <= 1.0);
        let c: f64 = kani::any();
        kani::assume(c >= -1.0 && c <= 1.0);
        unsafe {
            COS_RET = c;
            COS_CALLS = 0;
        }
        let w: f32 = <Hann as WindowType<f32>>::window(p);
        unsafe {
            assert!(COS_CALLS == 1);
            assert!(COS_ARG == (p as f64) * (core::f64::consts::PI * 2.0), "cos is evaluated at 2*pi*p");
        }
        assert!(w == (0.5 * (1.0 - c)) as f32, "hann(p) == 0.5 * (1 - cos(2*pi*p)), rounded to f32");
        assert!(w >= 0.0 && w <= 1.0, "within [0, 1]");
        kani::cover!(true, "end");
    }

    /// without any stub: CBMC's own model of cos (any value in [-1, 1]) already bounds the window
    #[kani::proof]
    pub fn hann_range_unstubbed() {
        let p: f64 = kani::any();
        kani::assume(p >= 0.0 && p <= 1.0);
        let w: f64 = <Hann as WindowType<f64>>::window(p);
        assert!(w >= 0.0 && w <= 1.0, "within [0, 1]");
        kani::cover!(true, "end");
    }

    #[kani::proof]
    pub fn rectangle() {
        let p: f64 = kani::any();
        assert!(<Rectangle as WindowType<f64>>::window(p) == 1.0);
        let q: f32 = kani::any();
        assert!(<Rectangle as WindowType<f32>>::window(q) == 1.0);
        kani::cover!(true, "end");
    }
}

// ------------------------------------------------------------------------------------------
// Window iterator and Windowed
// ------------------------------------------------------------------------------------------
/// A window function that returns its phase: lets the harness observe the phases `Window` samples.
#[derive(Clone)]
pub struct Ident;
impl WindowType<f64> for Ident {
    type Output = f64;
    fn window(phase: f64) -> f64 {
        phase
    }
}

pub mod iter {
    use super::*;

    /// first phase is 0, on all channels, and the phase step is 1/(n-1).  (Later phases pass through
    /// the float `%` operator, which this Kani/CBMC evaluates to 0.0 for every operand pair -
    /// measured - so nothing is asserted about them here; see lib/phase_smt.py.)
    #[kani::proof]
    #[kani::unwind(6)]
    pub fn window_phases() {
        let n: usize = kani::any();
        kani::assume(n >= 2 && n <= 64);
        let mut w: Window<[f64; 2], Ident> = Window::new(n);
        let f0 = w.next().unwrap();
        assert!(f0[0] == 0.0 && f0[1] == 0.0, "a window starts at phase 0");
        assert!(w.next().is_some(), "a window never ends");
        let mut step_sig = dasp_signal::rate(n as f64 - 1.0).const_hz(1.0);
        assert!(step_sig.next() == 1.0 / (n as f64 - 1.0));
        // the step the window itself was built with (hook Phase::verif_step): phases are i/(n-1)
        use dasp_signal::Step;
        let mut own = w.phase.verif_step().clone();
        assert!(own.step() == 1.0 / (n as f64 - 1.0), "a window of n >= 2 frames samples the phases i/(n-1)");
        kani::cover!(n == 2, "two-frame window");
        kani::cover!(true, "end");
    }

    /// integer frames: the window value is converted through the float companion
    #[kani::proof]
    #[kani::unwind(4)]
    pub fn window_rectangle_formats() {
        let mut w: Window<[f32; 2], Rectangle> = Window::new(4);
        let f = w.next().unwrap();
        assert!(f == [1.0f32, 1.0]);
        let mut w: Window<f64, Rectangle> = Window::new(4);
        assert!(w.next().unwrap() == 1.0);
        // the free constructor functions and the typed Windower constructors are the same objects
        let mut wr = dasp_signal::window::rectangle::<[f32; 2]>(4);
        assert!(wr.next().unwrap() == [1.0f32, 1.0]);
        let mut wh = dasp_signal::window::hann::<f64>(4);
        assert!(wh.next().is_some());
        let data = [[0.5f32, 0.25]; 4];
        let mut a = Windower::rectangle(&data[..], 2, 2);
        let mut b: Windower<[f32; 2], Rectangle> = Windower::new(&data[..], 2, 2);
        assert!(a.size_hint() == b.size_hint());
        assert!(a.next().unwrap().next() == b.next().unwrap().next());
        let h = Windower::hann(&data[..], 2, 2);
        assert!(h.bin == 2 && h.hop == 2 && h.frames.len() == 4);
        kani::cover!(true, "end");
    }
}

// ------------------------------------------------------------------------------------------
// Windower schedule
// ------------------------------------------------------------------------------------------
pub mod schedule {
    use super::*;
    const CAP: usize = 16;

    fn expected_chunks(len: usize, bin: usize, hop: usize) -> usize {
        if len >= bin { (len - bin) / hop + 1 } else { 0 }
    }

    /// One step from ANY (remaining length <= 16, any bin, any hop >= 1): `next` is Some iff
    /// bin <= len; the chunk's source is exactly frames[..bin]; the remainder is frames[hop..]
    /// (or empty); the size hint taken before brackets the number of chunks that are still to
    /// come (closed-form count, whose recurrence is asserted here too, so by induction the hint
    /// is consistent for the whole run).
    #[kani::proof]
    #[kani::unwind(20)]
    pub fn step() {
        let data: [i16; CAP] = kani::any();
        let len: usize = kani::any();
        let bin: usize = kani::any();
        let hop: usize = kani::any();
        kani::assume(len <= CAP && bin >= 2 && hop >= 1);
        let mut wr: Windower<i16, Rectangle> = Windower::rectangle(&data[..len], bin, hop);
        let (lo, hi) = wr.size_hint();
        let count = expected_chunks(len, bin, hop);
        assert!(lo <= count, "size_hint lower bound is not above the number of chunks still yielded");
        assert!(hi.is_none() || count <= hi.unwrap(), "size_hint upper bound is not below it");
        let p0 = data.as_ptr();
        match wr.next() {
            Some(mut chunk) => {
                assert!(bin <= len, "a chunk is yielded only when a full bin remains");
                // the chunk's first `bin` frames are frames[0..bin] (rectangle window: gain 1.0)
                let j: usize = kani::any();
                kani::assume(j < bin);
                let mut k = 0;
                let mut got = 0i16;
                while k <= j {
                    got = chunk.next().unwrap();
                    k += 1;
                }
                assert!(got == data[j], "chunk frame j is source frame j scaled by the window (1.0)");
                // remainder
                let rest = wr.frames;
                let want_len = if hop < len { len - hop } else { 0 };
                assert!(rest.len() == want_len);
                if want_len > 0 {
                    assert!(rest.as_ptr() == unsafe { p0.add(hop) }, "the windower advances by exactly hop frames");
                }
                assert!(count == 1 + expected_chunks(want_len, bin, hop), "count recurrence");
                kani::cover!(want_len >= bin, "more chunks follow");
            }
            None => {
                assert!(bin > len);
                assert!(count == 0);
                assert!(wr.frames.len() == len);
            }
        }
        kani::cover!(len == bin, "exactly one bin left");
        kani::cover!(true, "end");
    }

    /// Whole runs: any L <= 8, bin in 2..=9, hop in 1..=9: exactly floor((L-b)/h)+1 chunks (0 if
    /// L < b), size_hint consistent before every call, and a symbolically chosen chunk k starts at
    /// frame k*h.
    #[kani::proof]
    #[kani::unwind(11)]
    pub fn whole_run() {
        #[cfg(feature = "thorough")]
        const L: usize = 8;
        #[cfg(not(feature = "thorough"))]
        const L: usize = 6;
        let data: [i16; L] = kani::any();
        let len: usize = kani::any();
        let bin: usize = kani::any();
        let hop: usize = kani::any();
        kani::assume(len <= L && bin >= 2 && bin <= 9 && hop >= 1 && hop <= 9);
        let total = expected_chunks(len, bin, hop);
        let mut wr: Windower<i16, Rectangle> = Windower::rectangle(&data[..len], bin, hop);
        let pick: usize = kani::any();
        let mut n = 0usize;
        loop {
            let (lo, hi) = wr.size_hint();
            let remaining = total - n;
            assert!(lo <= remaining && (hi.is_none() || remaining <= hi.unwrap()), "size_hint is consistent");
            match wr.next() {
                Some(mut chunk) => {
                    assert!(n < total, "no more chunks than floor((L-b)/h)+1");
                    if n == pick {
                        let first = chunk.next().unwrap();
                        assert!(first == data[n * hop], "chunk k starts at frame k*h");
                        let second = chunk.next().unwrap();
                        assert!(second == data[n * hop + 1]);
                    }
                    n += 1;
                }
                None => break,
            }
        }
        assert!(n == total, "exactly floor((L-b)/h)+1 chunks");
        assert!(wr.next().is_none(), "stays finished");
        kani::cover!(total == L - 1, "the maximal number of chunks");
        kani::cover!(total == 0, "no chunk");
        kani::cover!(true, "end");
    }

    /// the chunk is the source frame times the window frame, both advanced once per output
    #[kani::proof]
    #[kani::unwind(8)]
    pub fn windowed_product() {
        let data: [[f32; 2]; 4] = [[kani::any(), kani::any()], [kani::any(), kani::any()], [kani::any(), kani::any()], [kani::any(), kani::any()]];
        for f in data.iter() {
            kani::assume(f[0].is_finite() && f[1].is_finite());
        }
        // rectangle window: every one of the first `bin` frames is the source frame times 1.0
        let mut wr: Windower<[f32; 2], Rectangle> = Windower::new(&data[..], 4, 4);
        let mut chunk = wr.next().unwrap();
        for i in 0..4 {
            let got = chunk.next().unwrap();
            let want = Frame::mul_amp(data[i], [1.0f32, 1.0]);
            assert!(got[0].to_bits() == want[0].to_bits() && got[1].to_bits() == want[1].to_bits(), "frame * window frame");
        }
        // past the bin the source is exhausted: equilibrium scaled by the window
        let tail = chunk.next().unwrap();
        assert!(tail == [0.0, 0.0]);
        // a window whose value is its phase: position 0 has phase 0, so the first frame is scaled
        // by 0.0 - the window really is applied per position (later phases pass through CBMC's
        // range-only model of float `%` and cannot be compared exactly)
        let mut wr: Windower<[f32; 2], Ident> = Windower::new(&data[..], 4, 4);
        let mut chunk = wr.next().unwrap();
        let got = chunk.next().unwrap();
        assert!(got[0] == 0.0 && got[1] == 0.0);
        kani::cover!(true, "end");
    }
}
