//! C02 — float <-> integer sample conversion: exact scaling, correctly rounded / truncating.
//!
//! Oracles are bit-level: `rn_even` (round-to-nearest-even of an integer to p significant bits) for
//! int -> float, and a decode-sign/exponent/mantissa truncation for float -> int.  Neither performs
//! a floating-point operation that the implementation performs.
use crate::common::{ref_trunc_f32, ref_trunc_f64, rn_even, IntFmt};
use dasp_sample::{conv, Sample, FromSample, ToSample, I24, I48, U24, U48};

/// 2^(bits-1) as an exactly representable float
fn half_range_f32(bits: u32) -> f32 {
    (1u128 << (bits - 1)) as f32
}
fn half_range_f64(bits: u32) -> f64 {
    (1u128 << (bits - 1)) as f64
}

macro_rules! int_float {
    ($m:ident, $S:ty, $smod:ident, $to_s:ident) => {
        pub mod $m {
            use super::*;

            #[kani::proof]
            pub fn to_f32() {
                let s: $S = <$S as IntFmt>::any_val();
                let r: f32 = conv::$smod::to_f32(s);
                assert!(r >= -1.0 && r <= 1.0, "within [-1, 1]");
                let scaled = r * half_range_f32(<$S as IntFmt>::BITS); // power-of-two scaling: exact
                let want = rn_even(s.amp(), 24);
                assert!(scaled as i128 == want, "amplitude / 2^(bits-1), correctly rounded to f32");
                assert!((scaled as i128) as f32 == scaled, "scaled result is an integer");
                if <$S as IntFmt>::BITS <= 24 {
                    assert!(scaled as i128 == s.amp(), "exact when the width fits the mantissa");
                }
                if s.amp() == 0 {
                    assert!(r == 0.0, "equilibrium maps to 0.0");
                }
                let t: $S = <$S as IntFmt>::any_val();
                if s.raw() <= t.raw() {
                    assert!(r <= conv::$smod::to_f32(t), "order is preserved");
                }
                let d: f32 = s.to_sample::<f32>();
                let d2: f32 = <f32 as Sample>::from_sample(s);
                assert!(d.to_bits() == r.to_bits() && d2.to_bits() == r.to_bits());
                kani::cover!(<$S as IntFmt>::BITS <= 24 || want != s.amp(), "a value that needs rounding");
                kani::cover!(s.amp() < 0, "negative amplitude");
                kani::cover!(true, "end");
            }

            #[kani::proof]
            pub fn to_f64() {
                let s: $S = <$S as IntFmt>::any_val();
                let r: f64 = conv::$smod::to_f64(s);
                assert!(r >= -1.0 && r <= 1.0, "within [-1, 1]");
                let scaled = r * half_range_f64(<$S as IntFmt>::BITS);
                let want = rn_even(s.amp(), 53);
                assert!(scaled as i128 == want, "amplitude / 2^(bits-1), correctly rounded to f64");
                assert!((scaled as i128) as f64 == scaled, "scaled result is an integer");
                if <$S as IntFmt>::BITS <= 53 {
                    assert!(scaled as i128 == s.amp(), "exact when the width fits the mantissa");
                }
                if s.amp() == 0 {
                    assert!(r == 0.0, "equilibrium maps to 0.0");
                }
                let t: $S = <$S as IntFmt>::any_val();
                if s.raw() <= t.raw() {
                    assert!(r <= conv::$smod::to_f64(t), "order is preserved");
                }
                let d: f64 = s.to_sample::<f64>();
                let d2: f64 = <f64 as Sample>::from_sample(s);
                assert!(d.to_bits() == r.to_bits() && d2.to_bits() == r.to_bits());
                kani::cover!(<$S as IntFmt>::BITS <= 53 || want != s.amp(), "a value that needs rounding");
                kani::cover!(s.amp() < 0, "negative amplitude");
                kani::cover!(true, "end");
            }

            #[kani::proof]
            pub fn from_f32() {
                let s: f32 = kani::any();
                kani::assume(s >= -1.0 && s < 1.0); // the documented domain
                let r: $S = conv::f32::$to_s(s);
                assert!(r.in_range(), "result in range");
                assert!(r.amp() == ref_trunc_f32(s, <$S as IntFmt>::BITS), "s * 2^(bits-1) truncated toward zero");
                if s == 0.0 {
                    assert!(r.amp() == 0, "0.0 maps to equilibrium");
                }
                if s == -1.0 {
                    assert!(r.raw() == <$S as IntFmt>::min_raw(), "-1.0 maps to the minimum");
                }
                let t: f32 = kani::any();
                kani::assume(t >= -1.0 && t < 1.0);
                if s <= t {
                    assert!(r.raw() <= conv::f32::$to_s(t).raw(), "order is preserved");
                }
                let d: $S = s.to_sample::<$S>();
                let d2: $S = <$S as Sample>::from_sample(s);
                assert!(d.raw() == r.raw() && d2.raw() == r.raw());
                kani::cover!(s < 0.0 && r.amp() != ref_trunc_f32(s, <$S as IntFmt>::BITS) - 1 && (s * half_range_f32(<$S as IntFmt>::BITS)) as i128 as f32 != s * half_range_f32(<$S as IntFmt>::BITS), "negative non-integer product (truncation, not floor)");
                kani::cover!(s > 0.0, "positive");
                kani::cover!(true, "end");
            }

            #[kani::proof]
            pub fn from_f64() {
                let s: f64 = kani::any();
                kani::assume(s >= -1.0 && s < 1.0);
                let r: $S = conv::f64::$to_s(s);
                assert!(r.in_range(), "result in range");
                assert!(r.amp() == ref_trunc_f64(s, <$S as IntFmt>::BITS), "s * 2^(bits-1) truncated toward zero");
                if s == 0.0 {
                    assert!(r.amp() == 0, "0.0 maps to equilibrium");
                }
                if s == -1.0 {
                    assert!(r.raw() == <$S as IntFmt>::min_raw(), "-1.0 maps to the minimum");
                }
                let t: f64 = kani::any();
                kani::assume(t >= -1.0 && t < 1.0);
                if s <= t {
                    assert!(r.raw() <= conv::f64::$to_s(t).raw(), "order is preserved");
                }
                let d: $S = s.to_sample::<$S>();
                let d2: $S = <$S as Sample>::from_sample(s);
                assert!(d.raw() == r.raw() && d2.raw() == r.raw());
                kani::cover!(s < 0.0 && (s * half_range_f64(<$S as IntFmt>::BITS)) as i128 as f64 != s * half_range_f64(<$S as IntFmt>::BITS), "negative non-integer product (truncation, not floor)");
                kani::cover!(s > 0.0, "positive");
                kani::cover!(true, "end");
            }

            /// float -> int exactly inverts int -> float wherever the latter was exact
            #[kani::proof]
            pub fn inverse_f32() {
                let s: $S = <$S as IntFmt>::any_val();
                let f: f32 = conv::$smod::to_f32(s);
                if rn_even(s.amp(), 24) == s.amp() {
                    assert!(f < 1.0 && f >= -1.0);
                    let b: $S = conv::f32::$to_s(f);
                    assert!(b.raw() == s.raw(), "to_int(to_float(s)) == s where to_float was exact");
                    kani::cover!(s.amp() != 0, "exact non-zero case");
                }
                kani::cover!(true, "end");
            }

            #[kani::proof]
            pub fn inverse_f64() {
                let s: $S = <$S as IntFmt>::any_val();
                let f: f64 = conv::$smod::to_f64(s);
                if rn_even(s.amp(), 53) == s.amp() {
                    assert!(f < 1.0 && f >= -1.0);
                    let b: $S = conv::f64::$to_s(f);
                    assert!(b.raw() == s.raw(), "to_int(to_float(s)) == s where to_float was exact");
                    kani::cover!(s.amp() != 0, "exact non-zero case");
                }
                kani::cover!(true, "end");
            }
        }
    };
}

int_float!(fi8, i8, i8, to_i8);
int_float!(fi16, i16, i16, to_i16);
int_float!(fi24, I24, i24, to_i24);
int_float!(fi32, i32, i32, to_i32);
int_float!(fi48, I48, i48, to_i48);
int_float!(fi64, i64, i64, to_i64);
int_float!(fu8, u8, u8, to_u8);
int_float!(fu16, u16, u16, to_u16);
int_float!(fu24, U24, u24, to_u24);
int_float!(fu32, u32, u32, to_u32);
int_float!(fu48, U48, u48, to_u48);
int_float!(fu64, u64, u64, to_u64);

/// canonical (sign, odd mantissa, exponent) of a finite non-zero f32 / f64, as exact integers
fn canon_f32(x: f32) -> (bool, u64, i32) {
    let b = x.to_bits();
    let e = ((b >> 23) & 0xff) as i32;
    let m = (b & 0x7f_ffff) as u64;
    let (mant, exp) = if e == 0 { (m, -149) } else { (m | (1 << 23), e - 150) };
    let tz = mant.trailing_zeros();
    ((b >> 31) != 0, mant >> tz, exp + tz as i32)
}
fn canon_f64(x: f64) -> (bool, u64, i32) {
    let b = x.to_bits();
    let e = ((b >> 52) & 0x7ff) as i32;
    let m = b & 0xf_ffff_ffff_ffff;
    let (mant, exp) = if e == 0 { (m, -1074) } else { (m | (1 << 52), e - 1075) };
    let tz = mant.trailing_zeros();
    ((b >> 63) != 0, mant >> tz, exp + tz as i32)
}

pub mod float_float {
    use super::*;

    /// f32 -> f64 is exact: same sign, same odd mantissa, same exponent (exact rational equality)
    #[kani::proof]
    pub fn f32_to_f64() {
        let s: f32 = kani::any();
        let r: f64 = conv::f32::to_f64(s);
        if s.is_nan() {
            assert!(r.is_nan());
        } else if s.is_infinite() {
            assert!(r.is_infinite() && (r > 0.0) == (s > 0.0));
        } else if s == 0.0 {
            assert!(r == 0.0 && r.is_sign_negative() == s.is_sign_negative());
        } else {
            assert!(r.is_finite());
            assert!(canon_f32(s) == canon_f64(r), "same exact value");
            kani::cover!(s.to_bits() & 0x7f80_0000 == 0, "subnormal f32");
        }
        assert!(s.to_sample::<f64>().to_bits() == r.to_bits());
        assert!(<f64 as Sample>::from_sample(s).to_bits() == r.to_bits());
        kani::cover!(true, "end");
    }

    fn f32_next_up(x: f32) -> f32 {
        // x finite; next representable toward +inf
        let b = x.to_bits();
        if x == 0.0 { f32::from_bits(1) } else if (b >> 31) == 0 { f32::from_bits(b + 1) } else { f32::from_bits(b - 1) }
    }
    fn f32_next_down(x: f32) -> f32 {
        let b = x.to_bits();
        if x == 0.0 { f32::from_bits(0x8000_0001) } else if (b >> 31) == 0 { f32::from_bits(b - 1) } else { f32::from_bits(b + 1) }
    }

    /// f64 -> f32 is the correctly rounded value: no representable f32 is closer, ties to even
    #[kani::proof]
    pub fn f64_to_f32() {
        let s: f64 = kani::any();
        let r: f32 = conv::f64::to_f32(s);
        assert!(s.to_sample::<f32>().to_bits() == r.to_bits());
        if s.is_nan() {
            assert!(r.is_nan());
        } else {
            assert!(!r.is_nan());
            assert!(r.to_bits() == (s as f32).to_bits(), "the language's correctly rounded cast");
            // independent: nearest-ness. f32 -> f64 widening is exact (f32_to_f64 harness).
            const MAXF: f64 = 3.4028234663852886e38; // f32::MAX
            const HALF_ULP_MAX: f64 = 1.0141204801825835e31; // 2^103
            if r.is_infinite() {
                assert!(if r > 0.0 { s >= MAXF + HALF_ULP_MAX } else { s <= -(MAXF + HALF_ULP_MAX) }, "overflows only beyond the rounding threshold");
            } else {
                let rd = r as f64;
                let err = if s > rd { s - rd } else { rd - s };
                let up = f32_next_up(r);
                let dn = f32_next_down(r);
                if up.is_finite() {
                    let ud = up as f64;
                    let e2 = if s > ud { s - ud } else { ud - s };
                    assert!(err <= e2, "no closer f32 above");
                    if err == e2 && err != 0.0 {
                        assert!(r.to_bits() & 1 == 0, "ties go to the even mantissa");
                    }
                } else {
                    assert!(s < MAXF + HALF_ULP_MAX);
                }
                if dn.is_finite() {
                    let dd = dn as f64;
                    let e2 = if s > dd { s - dd } else { dd - s };
                    assert!(err <= e2, "no closer f32 below");
                    if err == e2 && err != 0.0 {
                        assert!(r.to_bits() & 1 == 0, "ties go to the even mantissa");
                    }
                } else {
                    assert!(s > -(MAXF + HALF_ULP_MAX));
                }
                kani::cover!(rd != s, "a value that needs rounding");
            }
        }
        kani::cover!(true, "end");
    }
}
