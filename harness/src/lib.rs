//! Kani proof harnesses over the real dasp crates (path dependencies on /repo).
//! One module per property of /verif/properties.jsonl, each behind its own cargo feature so a
//! check compiles only the harnesses it runs; see /verif/DESIGN.md.
#![allow(dead_code, unused_imports, unused_macros, unused_variables, unused_mut, clippy::all)]

#[cfg(kani)]
pub mod common;

#[cfg(all(kani, feature = "c01"))]
pub mod c01_int_conv;
#[cfg(all(kani, feature = "c02"))]
pub mod c02_float_conv;
#[cfg(all(kani, feature = "c06"))]
pub mod c06_ring_buffer;
#[cfg(all(kani, feature = "c15"))]
pub mod c15_types;
#[cfg(all(kani, feature = "c03"))]
pub mod c03_amp;
#[cfg(all(kani, feature = "c10"))]
pub mod c10_slice;
#[cfg(all(kani, feature = "c20"))]
pub mod c20_window;
#[cfg(all(kani, feature = "c11"))]
pub mod c11_rms;
#[cfg(all(kani, feature = "c11n"))]
pub mod c11_nostd;
#[cfg(all(kani, feature = "c17"))]
pub mod c17_osc;
#[cfg(all(kani, feature = "c19"))]
pub mod c19_envelope;
#[cfg(all(kani, any(feature = "c04", feature = "c05", feature = "c07", feature = "c08", feature = "c11", feature = "c12", feature = "c14", feature = "c18")))]
pub mod sigprobe;
#[cfg(all(kani, feature = "c04"))]
pub mod c04_adaptors;
#[cfg(all(kani, feature = "c05"))]
pub mod c05_exhaustion;
#[cfg(all(kani, feature = "c12"))]
pub mod c12_fork;
#[cfg(all(kani, feature = "c14"))]
pub mod c14_buffered;
#[cfg(all(kani, feature = "c08"))]
pub mod c08_converter;
#[cfg(all(kani, feature = "c18"))]
pub mod c18_sinc;
#[cfg(all(kani, feature = "c16"))]
pub mod c16_nodes;
#[cfg(all(kani, feature = "c07"))]
pub mod c07_noalloc;
