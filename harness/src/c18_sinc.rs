//! C18 — sinc interpolation (the decidable part): index/priming safety, reset, which taps with which
//! weights (structure), and ratio-1 transparency to 1e-12 with libm's sin/cos values tabulated at the
//! concrete kernel arguments.  NOT decided: linearity within rounding, finiteness for finite input,
//! the 1 % constant-reproduction clause - they need the numeric values of sin/cos at symbolic arguments.
use crate::sigprobe::Probe;
use dasp_frame::Frame;
use dasp_interpolate::{sinc::Sinc, Interpolator};
use dasp_ring_buffer::Fixed;
use dasp_signal::Signal;

include!("c18_table.in");

/// libm values at exactly the arguments the kernel uses at x = 0 (table generated from the host libm);
/// any other argument makes the path infeasible, and the harness' final cover must still be reachable
fn sin_table(x: f64) -> f64 {
    let b = x.to_bits();
    let mut i = 0;
    while i < SIN_TABLE.len() {
        if SIN_TABLE[i].0 == b {
            return f64::from_bits(SIN_TABLE[i].1);
        }
        i += 1;
    }
    kani::assume(false);
    0.0
}
fn cos_table(x: f64) -> f64 {
    let b = x.to_bits();
    let mut i = 0;
    while i < COS_TABLE.len() {
        if COS_TABLE[i].0 == b {
            return f64::from_bits(COS_TABLE[i].1);
        }
        i += 1;
    }
    kani::assume(false);
    0.0
}

/// cheap deterministic stand-ins used by the structure harnesses (any function will do: the harness
/// computes its expected weights with the same stand-ins)
///
/// They are chosen so that every tap weight is a distinct power of two: sin_lin(a)/a == 2^-floor(a)
/// and 0.5 + 0.5*cos_lin(b) == 2^-floor(b), both exactly.  Power-of-two weights make all products and
/// (for the 16-bit frame grid) all partial sums exact, which keeps the solver's equivalence proof
/// between the kernel's accumulation and the reference sum cheap; a wrong tap index, a swapped
/// phil/phir, a wrong window argument or a missing tap all change the sum.
fn pow2neg(k: usize) -> f64 {
    f64::from_bits(((1023 - (k as u64 & 0xff)) << 52))
}
fn sin_lin(a: f64) -> f64 {
    a * pow2neg(a as usize)
}
fn cos_lin(b: f64) -> f64 {
    2.0 * pow2neg(b as usize) - 1.0
}
/// stand-in with sin(a)/a finite for every a != 0 (like the real sinc), used where x is symbolic
fn sin_prop(a: f64) -> f64 {
    a * 0.75
}

fn grid() -> f64 {
    let k: i16 = kani::any();
    k as f64 / 32768.0
}

/// float frames with headroom: k / 8192 in [-4, 4) (float sample formats are not confined to [-1, 1))
fn grid_headroom() -> f64 {
    let k: i16 = kani::any();
    k as f64 / 8192.0
}

macro_rules! sinc_depth {
    ($m:ident, $d:expr) => {
        pub mod $m {
            use super::*;
            const D: usize = $d;
            const LEN: usize = 2 * $d;

            /// any ring offset, any number of pushed frames (so any idx in 0..=D), arbitrary contents
            fn any_state() -> (Sinc<[f64; LEN]>, usize, [f64; LEN]) {
                let first: usize = kani::any();
                kani::assume(first < LEN);
                let mut data = [0.0f64; LEN];
                for i in 0..LEN {
                    data[i] = grid();
                }
                let mut s = Sinc::new(Fixed::from_raw_parts(first, data));
                let pushes: usize = kani::any();
                kani::assume(pushes <= D + 1);
                // logical content (oldest first) after the pushes
                let mut logical = [0.0f64; LEN];
                for i in 0..LEN {
                    logical[i] = data[(first + i) % LEN];
                }
                for _ in 0..pushes {
                    let f = grid();
                    s.next_source_frame(f);
                    for i in 0..LEN - 1 {
                        logical[i] = logical[i + 1];
                    }
                    logical[LEN - 1] = f;
                }
                let idx = if pushes < D { pushes } else { D };
                (s, idx, logical)
            }

            /// state reached from a fresh zero ring by a CONCRETE number of pushes of symbolic frames
            /// (concrete ring positions keep every product constant x symbolic)
            fn pushed_state(pushes: usize) -> (Sinc<[f64; LEN]>, usize, [f64; LEN]) {
                let mut s = Sinc::new(Fixed::from([0.0f64; LEN]));
                let mut logical = [0.0f64; LEN];
                let mut p = 0;
                while p < pushes {
                    let f = grid_headroom();
                    s.next_source_frame(f);
                    let mut i = 0;
                    while i < LEN - 1 {
                        logical[i] = logical[i + 1];
                        i += 1;
                    }
                    logical[LEN - 1] = f;
                    p += 1;
                }
                (s, if pushes < D { pushes } else { D }, logical)
            }
            const PUSHES: [usize; 5] = [0, 1, D, D + 1, 2 * D + 1];

            /// no arithmetic underflow, no out-of-range access, at any priming stage and any x in [0,1);
            /// sin / cos are CBMC's own models (any value in [-1, 1])
            #[kani::proof]
            #[kani::unwind(10)]
            pub fn index_safety() {
                let (s, idx, _) = any_state();
                let x: f64 = kani::any();
                kani::assume(x >= 0.0 && x < 1.0);
                let _ = s.interpolate(x);
                kani::cover!(idx == 0, "nothing pushed yet");
                kani::cover!(idx == D, "fully primed");
                kani::cover!(true, "end");
            }

            /// which taps, with which weights: at concrete fractional positions the output is exactly
            /// sum_n wL(n)*frame[idx-n] + wR(n)*frame[idx+1+n] (ring indexing wraps), accumulated in the
            /// kernel's order, with wL(n) = sinc(pi(x+n)) * hann(pi(x+n)/D), wR(n) likewise at 1-x
            #[kani::proof]
            #[kani::unwind(12)]
            #[kani::stub(dasp_interpolate::sinc::ops::f64::sin, super::sin_lin)]
            #[kani::stub(dasp_interpolate::sinc::ops::f64::cos, super::cos_lin)]
            pub fn taps_and_weights() {
              // depth 2: two states, depth 3 (12 taps per output): only the fully primed, wrapped state - more did not finish in 900 s
              const TAP_PUSHES: [usize; 3] = [2 * D + 1, D, 0];
              const N_STATES: usize = if D == 1 { 3 } else if D == 2 { 2 } else { 1 };
              let mut pi = 0;
              while pi < N_STATES {
                let (s, idx, logical) = pushed_state(TAP_PUSHES[pi]);
                const XS: [f64; 2] = [0.0, 0.25];
                let max_depth = if idx + 1 < D { idx + 1 } else { D };
                let mut k = 0;
                while k < 2 {
                    let x = XS[k];
                    let y = s.interpolate(x);
                    let mut acc = 0.0f64;
                    let mut n = 0;
                    while n < max_depth {
                        let a = core::f64::consts::PI * (x + n as f64);
                        let first = if a == 0.0 { 1.0 } else { sin_lin(a) / a };
                        let second = 0.5 + 0.5 * cos_lin(a / D as f64);
                        acc = acc + first * second * logical[idx - n];
                        let a = core::f64::consts::PI * ((1.0 - x) + n as f64);
                        let first = if a == 0.0 { 1.0 } else { sin_lin(a) / a };
                        let second = 0.5 + 0.5 * cos_lin(a / D as f64);
                        acc = acc + first * second * logical[(idx + 1 + n) % LEN];
                        n += 1;
                    }
                    assert!(y == acc, "windowed-sinc sum over exactly the taps idx-n and idx+1+n");
                    k += 1;
                }
                pi += 1;
              }
              kani::cover!(true, "end");
            }

            /// reset returns the interpolator to its initial silent state from any state
            /// (deterministic stand-ins for sin / cos: CBMC's own models return a fresh arbitrary value per
            /// call, and an arbitrary sin(a) makes sin(a)/a infinite for tiny a - an artefact, not dasp)
            #[kani::proof]
            #[kani::unwind(10)]
            #[kani::stub(dasp_interpolate::sinc::ops::f64::sin, super::sin_prop)]
            #[kani::stub(dasp_interpolate::sinc::ops::f64::cos, super::cos_lin)]
            pub fn reset() {
                let (mut s, _, _) = any_state();
                s.reset();
                let x: f64 = kani::any();
                kani::assume(x >= 0.0 && x < 1.0);
                assert!(s.interpolate(x) == 0.0, "silent after reset");
                // behaves like a freshly constructed interpolator: one push lands where it would there
                let f = grid();
                s.next_source_frame(f);
                let mut fresh = Sinc::new(Fixed::from([0.0f64; LEN]));
                fresh.next_source_frame(f);
                assert!(s.interpolate(0.0) == fresh.interpolate(0.0));
                kani::cover!(true, "end");
            }

            /// ratio exactly 1: fully primed, x = 0: |out - frame[idx]| <= 1e-12 (frames in [-4, 4): the bound is
            /// kept at 1e-12 x 1, i.e. tighter than "1e-12 of the peak input amplitude");
            /// sin/cos are the host libm's values at exactly the kernel's arguments
            #[kani::proof]
            #[kani::unwind(12)]
            #[kani::stub(dasp_interpolate::sinc::ops::f64::sin, super::sin_table)]
            #[kani::stub(dasp_interpolate::sinc::ops::f64::cos, super::cos_table)]
            pub fn transparent_at_ratio_one() {
                let mut pi = 0;
                while pi < 5 {
                    let (s, idx, logical) = pushed_state(PUSHES[pi]);
                    let y = s.interpolate(0.0);
                    let want = logical[idx];
                    let err = if y > want { y - want } else { want - y };
                    assert!(err <= 1e-12, "on the sample grid the interpolator reproduces the frame at idx");
                    kani::cover!(pi == 4 && want != 0.0, "fully primed, ring wrapped, non-zero frame");
                    pi += 1;
                }
                kani::cover!(true, "end");
            }

            /// through the converter at ratio 1 with zero-initialised padding: output k is source frame
            /// k - depth (silence before), to within 1e-12
            #[kani::proof]
            #[kani::unwind(12)]
            #[kani::stub(dasp_interpolate::sinc::ops::f64::sin, super::sin_table)]
            #[kani::stub(dasp_interpolate::sinc::ops::f64::cos, super::cos_table)]
            pub fn converter_delays_by_depth() {
                const N: usize = $d + 3;
                let mut fr = [0.0f64; 8];
                for i in 0..N {
                    fr[i] = grid();
                }
                let src: Probe<f64, 8> = Probe::new(fr, N);
                let mut c = src.scale_hz(Sinc::new(Fixed::from([0.0f64; LEN])), 1.0);
                for k in 0..N {
                    let y = c.next();
                    let want = if k >= D { fr[k - D] } else { 0.0 };
                    let err = if y > want { y - want } else { want - y };
                    assert!(err <= 1e-12, "output k is source frame k - depth");
                }
                kani::cover!(true, "end");
            }
        }
    };
}
sinc_depth!(d1, 1);
sinc_depth!(d2, 2);
sinc_depth!(d3, 3);

/// integer frames: same index arithmetic, values pass through the f64 conversions
pub mod i16_frames {
    use super::*;
    #[kani::proof]
    #[kani::unwind(10)]
    #[kani::stub(dasp_interpolate::sinc::ops::f64::sin, super::sin_prop)]
    #[kani::stub(dasp_interpolate::sinc::ops::f64::cos, super::cos_lin)]
    pub fn index_safety_depth2() {
        let first: usize = kani::any();
        kani::assume(first < 4);
        let data: [[i16; 2]; 4] = kani::any();
        let mut s = Sinc::new(Fixed::from_raw_parts(first, data));
        let pushes: usize = kani::any();
        kani::assume(pushes <= 3);
        for _ in 0..pushes {
            s.next_source_frame(kani::any());
        }
        s.reset();
        let x: f64 = kani::any();
        kani::assume(x >= 0.0 && x < 1.0);
        let y = s.interpolate(x);
        assert!(y == [0, 0], "silent after reset");
        kani::cover!(pushes == 3, "fully primed before the reset");
        kani::cover!(true, "end");
    }

    /// 32-bit integer frames (whose float companion is only f32): on the sample grid the output is the
    /// frame at idx EXACTLY - the kernel must carry samples in f64, where every i32 is exact
    #[kani::proof]
    #[kani::unwind(12)]
    #[kani::stub(dasp_interpolate::sinc::ops::f64::sin, super::sin_table)]
    #[kani::stub(dasp_interpolate::sinc::ops::f64::cos, super::cos_table)]
    pub fn transparent_i32_frames() {
        let fr: [i32; 5] = kani::any();
        // depth 1 (ring of 2) and depth 2 (ring of 4), fully primed and wrapped
        let mut s1 = Sinc::new(Fixed::from([0i32; 2]));
        let mut s2 = Sinc::new(Fixed::from([0i32; 4]));
        let mut i = 0;
        while i < 5 {
            s1.next_source_frame(fr[i]);
            s2.next_source_frame(fr[i]);
            i += 1;
        }
        // ring of 2 holds fr[3], fr[4]; idx = 1 -> fr[4]; ring of 4 holds fr[1..5]; idx = 2 -> fr[3]
        assert!(s1.interpolate(0.0) == fr[4], "depth 1: exact on the grid for every i32");
        assert!(s2.interpolate(0.0) == fr[3], "depth 2: exact on the grid for every i32");
        kani::cover!(fr[4] > (1 << 24) + 1 && fr[4] % 2 == 1, "a value that does not fit an f32 mantissa");
        kani::cover!(true, "end");
    }

    /// Sinc::new refuses an odd-length ring (it could not be centred)
    #[kani::proof]
    pub fn new_requires_even_length() {
        let s = Sinc::new(Fixed::from([0i16; 3]));
        let _ = s;
        kani::cover!(true, "unreachable: new must have panicked");
    }
}
