//! C10 — sample<->frame slice views are lossless, in place and total; slice ops are safe.
use dasp_frame::Frame;
use dasp_sample::{Sample, I24, I48, U24, U48};
use dasp_slice as sl;
use dasp_slice::{FromFrameSlice, FromSampleSlice, ToFrameSlice, ToSampleSlice};

macro_rules! views {
    ($m:ident, $S:ty, $n:expr, $any:expr) => {
        pub mod $m {
            use super::*;
            const N: usize = $n;
            const CAP: usize = 3 * $n + 1;
            fn any_s() -> $S {
                $any
            }
            fn backing() -> [$S; CAP] {
                let mut b = [<$S as Sample>::EQUILIBRIUM; CAP];
                // contents symbolic at the positions the assertions inspect (symbolic indices
                // below), so a full symbolic array is needed
                let mut i = 0;
                while i < CAP {
                    b[i] = any_s();
                    i += 1;
                }
                b
            }

            #[kani::proof]
            #[kani::unwind(100)]
            pub fn shared() {
                let data = backing();
                let len: usize = kani::any();
                kani::assume(len <= CAP);
                let s: &[$S] = &data[..len];
                let r: Option<&[[$S; N]]> = sl::to_frame_slice(s);
                assert!(r.is_some() == (len % N == 0), "succeeds iff N divides L");
                let r2: Option<&[[$S; N]]> = sl::from_sample_slice(s);
                assert!(r2.is_some() == r.is_some());
                if let Some(fr) = r {
                    assert!(fr.len() == len / N, "L/N frames");
                    assert!(fr.as_ptr() as *const $S == s.as_ptr(), "the very same memory");
                    assert!(r2.unwrap().as_ptr() == fr.as_ptr() && r2.unwrap().len() == fr.len());
                    let i: usize = kani::any();
                    let c: usize = kani::any();
                    if i < fr.len() && c < N {
                        assert!(fr[i][c] == s[i * N + c], "channel c of frame i is sample i*N+c");
                    }
                    // frames -> samples is the exact inverse
                    let back: &[$S] = sl::to_sample_slice(fr);
                    assert!(back.as_ptr() == s.as_ptr() && back.len() == len);
                    let back2: &[$S] = sl::from_frame_slice(fr);
                    assert!(back2.as_ptr() == s.as_ptr() && back2.len() == len);
                    kani::cover!(fr.len() == 3, "three frames");
                    kani::cover!(fr.len() == 0, "empty slice");
                }
                kani::cover!(N == 1 || r.is_none(), "length not divisible");
                kani::cover!(true, "end");
            }

            #[kani::proof]
            #[kani::unwind(100)]
            pub fn mutable() {
                let mut data = backing();
                let orig = data;
                let len: usize = kani::any();
                kani::assume(len <= CAP);
                let p0 = data.as_ptr();
                let i: usize = kani::any();
                let c: usize = kani::any();
                let x = any_s();
                let some;
                {
                    let s: &mut [$S] = &mut data[..len];
                    let r: Option<&mut [[$S; N]]> = sl::to_frame_slice_mut(s);
                    some = r.is_some();
                    assert!(some == (len % N == 0), "succeeds iff N divides L");
                    if let Some(fr) = r {
                        assert!(fr.len() == len / N);
                        assert!(fr.as_ptr() as *const $S == p0);
                        if i < fr.len() && c < N {
                            assert!(fr[i][c] == orig[i * N + c]);
                            fr[i][c] = x; // write through the frame view
                        }
                        let back: &mut [$S] = sl::to_sample_slice_mut(fr);
                        assert!(back.as_ptr() == p0 && back.len() == len);
                    }
                }
                {
                    let s: &mut [$S] = &mut data[..len];
                    let r2: Option<&mut [[$S; N]]> = sl::from_sample_slice_mut(s);
                    assert!(r2.is_some() == some);
                    if let Some(fr) = r2 {
                        assert!(fr.len() == len / N && fr.as_ptr() as *const $S == p0);
                        let back: &mut [$S] = sl::from_frame_slice_mut(fr);
                        assert!(back.as_ptr() == p0 && back.len() == len);
                    }
                }
                if some && i < len / N && c < N {
                    assert!(data[i * N + c] == x, "the write landed on sample i*N+c");
                    let j: usize = kani::any();
                    if j < CAP && j != i * N + c {
                        assert!(data[j] == orig[j], "nothing else was touched");
                    }
                    kani::cover!(true, "wrote through the view");
                }
                kani::cover!(true, "end");
            }
        }
    };
}

macro_rules! boxed {
    ($m:ident, $S:ty, $n:expr, $any:expr) => {
        pub mod $m {
            use super::*;
            const N: usize = $n;
            fn any_s() -> $S {
                $any
            }
            fn run<const LEN: usize>() {
                let mut arr = [<$S as Sample>::EQUILIBRIUM; LEN];
                let mut k = 0;
                while k < LEN {
                    arr[k] = any_s();
                    k += 1;
                }
                let b: Box<[$S]> = Box::new(arr);
                let p0 = b.as_ptr();
                let r: Option<Box<[[$S; N]]>> = sl::to_boxed_frame_slice(b);
                assert!(r.is_some() == (LEN % N == 0), "succeeds iff N divides L");
                if let Some(fr) = r {
                    assert!(fr.len() == LEN / N);
                    assert!(fr.as_ptr() as *const $S == p0, "boxed conversion reuses the allocation");
                    let i: usize = kani::any();
                    let c: usize = kani::any();
                    if i < fr.len() && c < N {
                        assert!(fr[i][c] == arr[i * N + c]);
                    }
                    let back: Box<[$S]> = sl::to_boxed_sample_slice(fr);
                    assert!(back.as_ptr() == p0 && back.len() == LEN);
                    let r3: Option<Box<[[$S; N]]>> = sl::from_boxed_sample_slice(back);
                    assert!(r3.is_some());
                    let back3: Box<[$S]> = sl::from_boxed_frame_slice(r3.unwrap());
                    assert!(back3.as_ptr() == p0 && back3.len() == LEN);
                    // dropped here: CBMC's --memory-leak-check shows the allocation is released
                }
                // failure path: the conversion consumed the box and must have released it
            }
            #[kani::proof]
            #[kani::unwind(70)]
            pub fn len_0() {
                run::<0>();
                kani::cover!(true, "end");
            }
            #[kani::proof]
            #[kani::unwind(70)]
            pub fn len_n() {
                run::<{ $n }>();
                kani::cover!(true, "end");
            }
            #[kani::proof]
            #[kani::unwind(70)]
            pub fn len_2n() {
                run::<{ 2 * $n }>();
                kani::cover!(true, "end");
            }
            /// N does not divide N+1 (for N >= 2): the failed conversion must release the allocation
            #[kani::proof]
            #[kani::unwind(70)]
            pub fn len_n_plus_1() {
                run::<{ $n + 1 }>();
                kani::cover!(true, "end");
            }
        }
    };
}

macro_rules! both {
    ($v:ident, $b:ident, $S:ty, $n:expr, $any:expr) => {
        views!($v, $S, $n, $any);
        boxed!($b, $S, $n, $any);
    };
}

both!(views_i16_n1, boxed_i16_n1, i16, 1, kani::any());
both!(views_i16_n2, boxed_i16_n2, i16, 2, kani::any());
both!(views_i16_n3, boxed_i16_n3, i16, 3, kani::any());
both!(views_i16_n4, boxed_i16_n4, i16, 4, kani::any());
#[cfg(feature = "thorough")]
both!(views_i16_n5, boxed_i16_n5, i16, 5, kani::any());
#[cfg(feature = "thorough")]
both!(views_i16_n6, boxed_i16_n6, i16, 6, kani::any());
#[cfg(feature = "thorough")]
both!(views_i16_n7, boxed_i16_n7, i16, 7, kani::any());
both!(views_i16_n8, boxed_i16_n8, i16, 8, kani::any());
#[cfg(feature = "thorough")]
both!(views_i16_n9, boxed_i16_n9, i16, 9, kani::any());
#[cfg(feature = "thorough")]
both!(views_i16_n10, boxed_i16_n10, i16, 10, kani::any());
#[cfg(feature = "thorough")]
both!(views_i16_n11, boxed_i16_n11, i16, 11, kani::any());
#[cfg(feature = "thorough")]
both!(views_i16_n12, boxed_i16_n12, i16, 12, kani::any());
#[cfg(feature = "thorough")]
both!(views_i16_n13, boxed_i16_n13, i16, 13, kani::any());
#[cfg(feature = "thorough")]
both!(views_i16_n14, boxed_i16_n14, i16, 14, kani::any());
#[cfg(feature = "thorough")]
both!(views_i16_n15, boxed_i16_n15, i16, 15, kani::any());
#[cfg(feature = "thorough")]
both!(views_i16_n16, boxed_i16_n16, i16, 16, kani::any());
#[cfg(feature = "thorough")]
both!(views_i16_n17, boxed_i16_n17, i16, 17, kani::any());
#[cfg(feature = "thorough")]
both!(views_i16_n18, boxed_i16_n18, i16, 18, kani::any());
#[cfg(feature = "thorough")]
both!(views_i16_n19, boxed_i16_n19, i16, 19, kani::any());
#[cfg(feature = "thorough")]
both!(views_i16_n20, boxed_i16_n20, i16, 20, kani::any());
#[cfg(feature = "thorough")]
both!(views_i16_n21, boxed_i16_n21, i16, 21, kani::any());
#[cfg(feature = "thorough")]
both!(views_i16_n22, boxed_i16_n22, i16, 22, kani::any());
#[cfg(feature = "thorough")]
both!(views_i16_n23, boxed_i16_n23, i16, 23, kani::any());
#[cfg(feature = "thorough")]
both!(views_i16_n24, boxed_i16_n24, i16, 24, kani::any());
#[cfg(feature = "thorough")]
both!(views_i16_n25, boxed_i16_n25, i16, 25, kani::any());
#[cfg(feature = "thorough")]
both!(views_i16_n26, boxed_i16_n26, i16, 26, kani::any());
#[cfg(feature = "thorough")]
both!(views_i16_n27, boxed_i16_n27, i16, 27, kani::any());
#[cfg(feature = "thorough")]
both!(views_i16_n28, boxed_i16_n28, i16, 28, kani::any());
#[cfg(feature = "thorough")]
both!(views_i16_n29, boxed_i16_n29, i16, 29, kani::any());
#[cfg(feature = "thorough")]
both!(views_i16_n30, boxed_i16_n30, i16, 30, kani::any());
both!(views_i16_n31, boxed_i16_n31, i16, 31, kani::any());
both!(views_i16_n32, boxed_i16_n32, i16, 32, kani::any());

// every other sample format at N = 2
fn any_i24() -> I24 {
    let v: i32 = kani::any();
    kani::assume(v >= -8_388_608 && v <= 8_388_607);
    I24::new(v).unwrap()
}
fn any_u24() -> U24 {
    let v: i32 = kani::any();
    kani::assume(v >= 0 && v <= 16_777_215);
    U24::new(v).unwrap()
}
fn any_i48() -> I48 {
    let v: i64 = kani::any();
    kani::assume(v >= -140_737_488_355_328 && v <= 140_737_488_355_327);
    I48::new(v).unwrap()
}
fn any_u48() -> U48 {
    let v: i64 = kani::any();
    kani::assume(v >= 0 && v <= 281_474_976_710_655);
    U48::new(v).unwrap()
}
fn any_f32() -> f32 {
    let v: f32 = kani::any();
    kani::assume(!v.is_nan());
    v
}
fn any_f64() -> f64 {
    let v: f64 = kani::any();
    kani::assume(!v.is_nan());
    v
}
both!(views_i8_n2, boxed_i8_n2, i8, 2, kani::any());
both!(views_i24_n2, boxed_i24_n2, I24, 2, any_i24());
both!(views_i32_n2, boxed_i32_n2, i32, 2, kani::any());
both!(views_i48_n2, boxed_i48_n2, I48, 2, any_i48());
both!(views_i64_n2, boxed_i64_n2, i64, 2, kani::any());
both!(views_u8_n2, boxed_u8_n2, u8, 2, kani::any());
both!(views_u16_n2, boxed_u16_n2, u16, 2, kani::any());
both!(views_u24_n2, boxed_u24_n2, U24, 2, any_u24());
both!(views_u32_n2, boxed_u32_n2, u32, 2, kani::any());
both!(views_u48_n2, boxed_u48_n2, U48, 2, any_u48());
both!(views_u64_n2, boxed_u64_n2, u64, 2, kani::any());
both!(views_f32_n2, boxed_f32_n2, f32, 2, any_f32());
both!(views_f64_n2, boxed_f64_n2, f64, 2, any_f64());

/// the trivial directions: samples viewed as samples, frames viewed as frames
pub mod identity {
    use super::*;
    #[kani::proof]
    #[kani::unwind(8)]
    pub fn identity_views() {
        let mut data: [i16; 4] = kani::any();
        let len: usize = kani::any();
        kani::assume(len <= 4);
        let p = data.as_ptr();
        {
            let s: &[i16] = &data[..len];
            let v: Option<&[i16]> = sl::from_sample_slice(s);
            assert!(v.is_some() && v.unwrap().as_ptr() == p && v.unwrap().len() == len);
            let w: &[i16] = sl::to_sample_slice(s);
            assert!(w.as_ptr() == p && w.len() == len);
        }
        {
            let s: &mut [i16] = &mut data[..len];
            let v: Option<&mut [i16]> = sl::from_sample_slice_mut(s);
            assert!(v.is_some());
            let v = v.unwrap();
            assert!(v.as_ptr() == p && v.len() == len);
            let w: &mut [i16] = sl::to_sample_slice_mut(v);
            assert!(w.as_ptr() == p && w.len() == len);
        }
        let fr: [[i16; 2]; 2] = kani::any();
        let f: &[[i16; 2]] = &fr[..];
        let g: Option<&[[i16; 2]]> = sl::to_frame_slice(f);
        assert!(g.is_some() && g.unwrap().as_ptr() == f.as_ptr() && g.unwrap().len() == 2);
        let h: &[[i16; 2]] = sl::from_frame_slice(f);
        assert!(h.as_ptr() == f.as_ptr() && h.len() == 2);
        kani::cover!(true, "end");
    }
}

// ------------------------------------------------------------------------------------------
// in-place slice operations
// ------------------------------------------------------------------------------------------
pub mod inplace {
    use super::*;
    const M: usize = 4;
    type Fr = [i16; 2];

    fn any_frames() -> [Fr; M] {
        let mut a = [[0i16; 2]; M];
        for i in 0..M {
            a[i] = [kani::any(), kani::any()];
        }
        a
    }
    fn any_len() -> usize {
        let l: usize = kani::any();
        kani::assume(l <= M);
        l
    }

    #[kani::proof]
    #[kani::unwind(7)]
    pub fn equilibrium_and_map() {
        let mut a = any_frames();
        let orig = a;
        let la = any_len();
        let i: usize = kani::any();
        kani::assume(i < M);
        let mut calls = 0;
        sl::map_in_place(&mut a[..la], |f| {
            calls += 1;
            [f[1], f[0]]
        });
        assert!(calls == la);
        if i < la {
            assert!(a[i] == [orig[i][1], orig[i][0]], "map_in_place == element-wise map");
        } else {
            assert!(a[i] == orig[i]);
        }
        sl::equilibrium(&mut a[..la]);
        if i < la {
            assert!(a[i] == [0, 0], "equilibrium() writes the equilibrium frame");
        } else {
            assert!(a[i] == orig[i]);
        }
        kani::cover!(la == M && i == M - 1, "full length");
        kani::cover!(la == 0, "empty");
        kani::cover!(true, "end");
    }

    /// offset-unsigned and float formats: equilibrium() writes the FORMAT's equilibrium (128 for u8,
    /// 2^23 for U24 ...), not the all-zero bit pattern
    #[kani::proof]
    #[kani::unwind(7)]
    pub fn equilibrium_unsigned() {
        let mut a: [[u8; 2]; 3] = kani::any();
        let mut b: [[u16; 1]; 3] = kani::any();
        let mut c: [U24; 2] = [any_u24(), any_u24()];
        let mut d: [[f32; 2]; 2] = [[1.5, -2.0]; 2];
        let la: usize = kani::any();
        kani::assume(la <= 3);
        let orig = a;
        sl::equilibrium(&mut a[..la]);
        sl::equilibrium(&mut b[..]);
        sl::equilibrium(&mut c[..]);
        sl::equilibrium(&mut d[..]);
        let i: usize = kani::any();
        kani::assume(i < 3);
        assert!(a[i] == if i < la { [128, 128] } else { orig[i] }, "u8 equilibrium is 128");
        assert!(b[i] == [32768], "u16 equilibrium is 32768");
        assert!(c[i % 2].inner() == 8_388_608, "U24 equilibrium is 2^23");
        assert!(d[i % 2] == [0.0, 0.0]);
        kani::cover!(la == 3, "full length");
        kani::cover!(true, "end");
    }

    /// equal lengths: element-wise; unequal: refuses by panicking BEFORE the mapping closure (the only
    /// route by which an element of `a` is written) has run even once
    #[kani::proof]
    #[kani::unwind(7)]
    pub fn zip_map() {
        let mut a = any_frames();
        let orig = a;
        let b = any_frames();
        let la = any_len();
        let lb = any_len();
        sl::zip_map_in_place(&mut a[..la], &b[..lb], |x, y| {
            assert!(la == lb, "closure must never run when the lengths differ");
            [x[0].wrapping_add(y[1]), y[0]]
        });
        assert!(la == lb, "a length mismatch must not return");
        let i: usize = kani::any();
        kani::assume(i < M);
        if i < la {
            assert!(a[i] == [orig[i][0].wrapping_add(b[i][1]), b[i][0]], "zip_map_in_place == element-wise zip_map");
        } else {
            assert!(a[i] == orig[i]);
        }
        kani::cover!(la == M, "full length");
        kani::cover!(true, "end");
    }

    #[kani::proof]
    #[kani::unwind(7)]
    pub fn write() {
        let mut a = any_frames();
        let orig = a;
        let b = any_frames();
        let la = any_len();
        let lb = any_len();
        sl::write(&mut a[..la], &b[..lb]);
        assert!(la == lb, "a length mismatch must not return");
        let i: usize = kani::any();
        kani::assume(i < M);
        assert!(a[i] == if i < la { b[i] } else { orig[i] });
        kani::cover!(la == M, "full length");
        kani::cover!(true, "end");
    }

    #[kani::proof]
    #[kani::unwind(7)]
    pub fn add() {
        let mut a = any_frames();
        let orig = a;
        let b = any_frames();
        let la = any_len();
        let lb = any_len();
        for i in 0..M {
            for c in 0..2 {
                let s = orig[i][c] as i32 + b[i][c] as i32;
                kani::assume(s >= i16::MIN as i32 && s <= i16::MAX as i32);
            }
        }
        sl::add_in_place(&mut a[..la], &b[..lb]);
        assert!(la == lb, "a length mismatch must not return");
        let i: usize = kani::any();
        kani::assume(i < M);
        if i < la {
            assert!(a[i] == Frame::add_amp(orig[i], b[i]), "add_in_place == element-wise add_amp");
            assert!(a[i][1] == orig[i][1] + b[i][1]);
        } else {
            assert!(a[i] == orig[i]);
        }
        kani::cover!(la == M, "full length");
        kani::cover!(true, "end");
    }

    #[kani::proof]
    #[kani::unwind(7)]
    pub fn add_with_amp() {
        let mut a = any_frames();
        let orig = a;
        let b = any_frames();
        let la = any_len();
        let lb = any_len();
        let pick = |s: u8| -> f32 { match s % 4 { 0 => 0.0, 1 => 1.0, 2 => 0.5, _ => -0.5 } };
        let amp: [f32; 2] = [pick(kani::any()), pick(kani::any())];
        for i in 0..M {
            for c in 0..2 {
                // b scaled by |amp| <= 1 shrinks; keep the sum in range
                let s = orig[i][c] as i32;
                kani::assume(s >= -16000 && s <= 16000 && b[i][c] >= -16000 && b[i][c] <= 16000);
            }
        }
        sl::add_in_place_with_amp_per_channel(&mut a[..la], &b[..lb], amp);
        assert!(la == lb, "a length mismatch must not return");
        let i: usize = kani::any();
        kani::assume(i < M);
        if i < la {
            assert!(a[i] == Frame::add_amp(orig[i], Frame::mul_amp(b[i], amp)), "== add_amp(mul_amp(b, amp))");
        } else {
            assert!(a[i] == orig[i]);
        }
        kani::cover!(la == M, "full length");
        kani::cover!(true, "end");
    }
}
