//! C12 — fork gives both branches the identical stream under every pull interleaving.
use crate::sigprobe::Probe;
use dasp_ring_buffer::Bounded;
use dasp_signal::{self as signal, Signal};

const STEPS: usize = if cfg!(feature = "thorough") { 12 } else { 8 };

/// source: 0, 1, 2, ... with a pull counter reachable from outside
fn counting<'a>(pulls: &'a mut i32) -> impl Signal<Frame = i32> + 'a {
    signal::gen_mut(move || {
        let v = *pulls;
        *pulls += 1;
        v
    })
}

macro_rules! fork_by_ref {
    ($name:ident, $cap:expr) => {
        /// all interleavings of STEPS pulls whose lead never exceeds the capacity
        #[kani::proof]
        #[kani::unwind(14)]
        pub fn $name() {
            const CAP: usize = $cap;
            let mut pulls = 0i32;
            // an EMPTY ring buffer in any position: fresh (start 0) or previously used and drained
            let start: usize = kani::any();
            kani::assume(start < CAP);
            let rb = unsafe { Bounded::from_raw_parts(start, 0, [-1i32; CAP]) };
            let mut fork = counting(&mut pulls).fork(rb);
            let (mut a, mut b) = fork.by_ref();
            let (mut na, mut nb) = (0i32, 0i32);
            let (mut a_full_lead, mut b_full_lead, mut level_again) = (false, false, false);
            for _ in 0..STEPS {
                let pick_a: bool = kani::any();
                // the documented precondition: neither branch gets ahead by more than the capacity
                if pick_a {
                    kani::assume(na - nb < CAP as i32);
                    let f = a.next();
                    assert!(f == na, "branch A sees the source's frames in order: none lost, duplicated or reordered");
                    na += 1;
                } else {
                    kani::assume(nb - na < CAP as i32);
                    let f = b.next();
                    assert!(f == nb, "branch B sees the source's frames in order");
                    nb += 1;
                }
                let lag_a = if nb > na { (nb - na) as usize } else { 0 };
                let lag_b = if na > nb { (na - nb) as usize } else { 0 };
                assert!(a.pending_frames() == lag_a, "pending == frames the branch lags behind");
                assert!(b.pending_frames() == lag_b);
                a_full_lead |= na - nb == CAP as i32;
                b_full_lead |= nb - na == CAP as i32;
                level_again |= na == nb && na > 0;
            }
            drop(a);
            drop(b);
            drop(fork);
            assert!(pulls == if na > nb { na } else { nb }, "the source is pulled exactly once per distinct frame");
            kani::cover!(level_again, "branches level again");
            kani::cover!(a_full_lead, "A was ahead by the full capacity at some point");
            kani::cover!(b_full_lead, "B was ahead by the full capacity at some point");
            kani::cover!(start == CAP - 1 && a_full_lead, "ring buffer handed over at its last slot");
            kani::cover!(true, "end");
        }
    };
}

pub mod by_ref {
    use super::*;
    fork_by_ref!(cap1, 1);
    fork_by_ref!(cap2, 2);
    fork_by_ref!(cap3, 3);

    /// re-split: use the branches for a while, drop them, take fresh branches from the same fork
    #[kani::proof]
    #[kani::unwind(10)]
    pub fn resplit_cap2() {
        const CAP: usize = 2;
        let mut pulls = 0i32;
        let mut fork = counting(&mut pulls).fork(Bounded::from([0i32; CAP]));
        let (mut na, mut nb) = (0i32, 0i32);
        for _round in 0..2 {
            let (mut a, mut b) = fork.by_ref();
            for _ in 0..3 {
                let pick_a: bool = kani::any();
                if pick_a {
                    kani::assume(na - nb < CAP as i32);
                    assert!(a.next() == na);
                    na += 1;
                } else {
                    kani::assume(nb - na < CAP as i32);
                    assert!(b.next() == nb);
                    nb += 1;
                }
                assert!(a.pending_frames() == if nb > na { (nb - na) as usize } else { 0 });
                assert!(b.pending_frames() == if na > nb { (na - nb) as usize } else { 0 });
            }
        }
        drop(fork);
        assert!(pulls == if na > nb { na } else { nb });
        kani::cover!(na != nb, "re-split while one branch lags");
        kani::cover!(true, "end");
    }
}

pub mod by_rc {
    use super::*;

    /// re-split: by-reference branches first (any admissible 3-step schedule, so either branch may be
    /// left lagging), dropped, then reference-counted branches from the same fork continue the streams
    #[kani::proof]
    #[kani::unwind(10)]
    pub fn resplit_by_ref_then_by_rc_cap2() {
        const CAP: usize = 2;
        let src: Probe<i32, 8> = Probe::new([0, 1, 2, 3, 4, 5, 6, 7], 8);
        let mut fork = src.fork(Bounded::from([0i32; CAP]));
        let (mut na, mut nb) = (0i32, 0i32);
        {
            let (mut a, mut b) = fork.by_ref();
            for _ in 0..3 {
                let pick_a: bool = kani::any();
                if pick_a {
                    kani::assume(na - nb < CAP as i32);
                    assert!(a.next() == na);
                    na += 1;
                } else {
                    kani::assume(nb - na < CAP as i32);
                    assert!(b.next() == nb);
                    nb += 1;
                }
            }
        }
        let (mut a, mut b) = fork.by_rc();
        assert!(a.pending_frames() == if nb > na { (nb - na) as usize } else { 0 }, "lag survives the re-split");
        assert!(b.pending_frames() == if na > nb { (na - nb) as usize } else { 0 });
        for _ in 0..3 {
            let pick_a: bool = kani::any();
            if pick_a {
                kani::assume(na - nb < CAP as i32);
                assert!(a.next() == na, "branch A continues its own stream after the re-split");
                na += 1;
            } else {
                kani::assume(nb - na < CAP as i32);
                assert!(b.next() == nb, "branch B continues its own stream after the re-split");
                nb += 1;
            }
            assert!(a.pending_frames() == if nb > na { (nb - na) as usize } else { 0 });
            assert!(b.pending_frames() == if na > nb { (na - nb) as usize } else { 0 });
        }
        kani::cover!(true, "end");
        core::mem::forget(a);
        core::mem::forget(b);
    }

    #[kani::proof]
    #[kani::unwind(10)]
    pub fn cap2() {
        const CAP: usize = 2;
        let src: Probe<i32, 8> = Probe::new([0, 1, 2, 3, 4, 5, 6, 7], 8);
        let (mut a, mut b) = src.fork(Bounded::from([0i32; CAP])).by_rc();
        let (mut na, mut nb) = (0i32, 0i32);
        for _ in 0..6 {
            let pick_a: bool = kani::any();
            if pick_a {
                kani::assume(na - nb < CAP as i32);
                assert!(a.next() == na, "branch A: in order, nothing lost or duplicated");
                na += 1;
            } else {
                kani::assume(nb - na < CAP as i32);
                assert!(b.next() == nb, "branch B: in order, nothing lost or duplicated");
                nb += 1;
            }
            assert!(a.pending_frames() == if nb > na { (nb - na) as usize } else { 0 });
            assert!(b.pending_frames() == if na > nb { (na - nb) as usize } else { 0 });
        }
        kani::cover!(na - nb == 2, "A ahead by the capacity");
        kani::cover!(true, "end");
        // reference-counted state: not dropped (drop glue of Rc is costly for the solver and irrelevant)
        core::mem::forget(a);
        core::mem::forget(b);
    }
}
