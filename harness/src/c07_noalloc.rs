//! C07 — no heap allocation in steady state.
//!
//! `alloc::alloc::{alloc, alloc_zeroed, realloc, dealloc}` are replaced (-Z stubbing) by versions that
//! assert `!STEADY` and count.  Each harness constructs its objects, sets STEADY, performs the
//! operations on symbolic inputs, clears STEADY.  CBMC explores every path of the real compiled code
//! (std included) within the unwinding bound, so a reachable allocator call under ANY input is a
//! counterexample.
use core::alloc::Layout;

pub static mut STEADY: bool = false;
pub static mut ALLOCS: usize = 0;
pub static mut FREES: usize = 0;

extern "Rust" {
    fn __rust_alloc(size: usize, align: usize) -> *mut u8;
    fn __rust_alloc_zeroed(size: usize, align: usize) -> *mut u8;
    fn __rust_realloc(ptr: *mut u8, old_size: usize, align: usize, new_size: usize) -> *mut u8;
    fn __rust_dealloc(ptr: *mut u8, size: usize, align: usize);
}

pub unsafe fn alloc_stub(layout: Layout) -> *mut u8 {
    assert!(!STEADY, "heap allocation in steady state");
    ALLOCS += 1;
    __rust_alloc(layout.size(), layout.align())
}
pub unsafe fn alloc_zeroed_stub(layout: Layout) -> *mut u8 {
    assert!(!STEADY, "heap allocation (zeroed) in steady state");
    ALLOCS += 1;
    __rust_alloc_zeroed(layout.size(), layout.align())
}
pub unsafe fn realloc_stub(ptr: *mut u8, layout: Layout, new_size: usize) -> *mut u8 {
    assert!(!STEADY, "heap reallocation in steady state");
    ALLOCS += 1;
    __rust_realloc(ptr, layout.size(), layout.align(), new_size)
}
pub unsafe fn dealloc_nonnull_stub(ptr: core::ptr::NonNull<u8>, layout: Layout) {
    assert!(!STEADY, "heap deallocation in steady state");
    FREES += 1;
    __rust_dealloc(ptr.as_ptr(), layout.size(), layout.align())
}
pub unsafe fn realloc_nonnull_stub(ptr: core::ptr::NonNull<u8>, layout: Layout, new_size: usize) -> *mut u8 {
    assert!(!STEADY, "heap reallocation in steady state");
    ALLOCS += 1;
    __rust_realloc(ptr.as_ptr(), layout.size(), layout.align(), new_size)
}
pub unsafe fn dealloc_stub(ptr: *mut u8, layout: Layout) {
    assert!(!STEADY, "heap deallocation in steady state");
    FREES += 1;
    __rust_dealloc(ptr, layout.size(), layout.align())
}

/// `format!` builds a `String`: treated as one allocation (the formatting machinery itself is not
/// explored - it makes the harnesses undecidable - and an empty literal is the only exemption).
pub fn fmt_format_stub(args: core::fmt::Arguments<'_>) -> String {
    if args.as_str() != Some("") {
        unsafe {
            assert!(!STEADY, "heap allocation in steady state (String built by format!)");
            ALLOCS += 1;
        }
    }
    String::new()
}

pub fn const_quarter(_x: f64) -> f64 {
    0.25
}
fn steady() {
    unsafe { STEADY = true }
}
fn unsteady() {
    unsafe { STEADY = false }
}

macro_rules! noalloc_harness {
    ($(#[$attr:meta])* $name:ident, $unwind:expr, $body:block) => {
        $(#[$attr])*
        #[kani::proof]
        #[kani::unwind($unwind)]
        #[kani::stub(alloc::alloc::alloc, crate::c07_noalloc::alloc_stub)]
        #[kani::stub(alloc::alloc::alloc_zeroed, crate::c07_noalloc::alloc_zeroed_stub)]
        #[kani::stub(alloc::alloc::realloc, crate::c07_noalloc::realloc_stub)]
        #[kani::stub(alloc::alloc::dealloc, crate::c07_noalloc::dealloc_stub)]
        #[kani::stub(alloc::alloc::dealloc_nonnull, crate::c07_noalloc::dealloc_nonnull_stub)]
        #[kani::stub(alloc::alloc::realloc_nonnull, crate::c07_noalloc::realloc_nonnull_stub)]
        #[kani::stub(alloc::fmt::format, crate::c07_noalloc::fmt_format_stub)]
        pub fn $name() $body
    };
}

pub mod control {
    use super::*;
    noalloc_harness!(
        /// positive control: Vec::push in steady state MUST be refuted (otherwise the stubs are blind)
        vec_push_in_steady_state_is_caught, 4, {
        let mut v: Vec<u8> = Vec::new();
        steady();
        v.push(kani::any());
        unsteady();
        core::mem::forget(v);
        kani::cover!(true, "end");
    });
    noalloc_harness!(
        /// positive control: growing a Vec (realloc path) in steady state MUST be refuted
        vec_grow_in_steady_state_is_caught, 4, {
        let mut v: Vec<u8> = Vec::with_capacity(1);
        v.push(1);
        steady();
        v.push(kani::any());
        unsteady();
        core::mem::forget(v);
        kani::cover!(true, "end");
    });
    noalloc_harness!(
        /// positive control: dropping a Box in steady state MUST be refuted
        box_drop_in_steady_state_is_caught, 4, {
        let b: Box<[u8; 4]> = Box::new(kani::any());
        assert!(unsafe { ALLOCS } == 1, "construction-time allocation is counted");
        steady();
        drop(b);
        unsteady();
        kani::cover!(true, "end");
    });
    noalloc_harness!(
        /// negative control: allocation outside the steady phase is fine, and counted
        allocation_outside_steady_is_fine, 4, {
        let b: Box<[u8; 4]> = Box::new(kani::any());
        steady();
        let s: u32 = b.iter().map(|x| *x as u32).sum();
        unsteady();
        assert!(s <= 4 * 255);
        drop(b);
        assert!(unsafe { ALLOCS } == 1 && unsafe { FREES } == 1);
        kani::cover!(true, "end");
    });
}

// ------------------------------------------------------------------------------------------
// the allocation-free API surface
// ------------------------------------------------------------------------------------------
pub mod api {
    use super::*;
    use crate::sigprobe::{CountIter, Probe};
    use dasp_frame::Frame;
    use dasp_ring_buffer::{Bounded, Fixed};
    use dasp_sample::{Sample, I24, U24};
    use dasp_signal::{self as signal, Signal};

    fn small_i16() -> i16 {
        let v: i16 = kani::any();
        kani::assume(v >= -4000 && v <= 4000);
        v
    }
    fn gain() -> f32 {
        match kani::any::<u8>() % 4 { 0 => 0.0, 1 => 1.0, 2 => 0.5, _ => -0.25 }
    }

    noalloc_harness!(
        /// sample conversions / arithmetic and frame operations
        samples_and_frames, 6, {
        let a: [i16; 2] = [small_i16(), small_i16()];
        let b: [i16; 2] = [small_i16(), small_i16()];
        let u: [u8; 2] = kani::any();
        steady();
        let _ = a[0].to_sample::<f32>().to_sample::<u8>().to_sample::<i64>().to_sample::<I24>().to_sample::<U24>();
        let _ = Sample::mul_amp(Sample::add_amp(a[0], b[0]), gain());
        let _ = Frame::add_amp(a, b).scale_amp(gain()).offset_amp(3).to_float_frame().to_signed_frame();
        let _ = Frame::mul_amp(u, [gain(), gain()]).to_signed_frame();
        let z: [i16; 2] = a.zip_map(b, |x, y| x.wrapping_add(y));
        let mut it = [a[0], a[1], b[0]].into_iter();
        let _: Option<[i16; 2]> = Frame::from_samples(&mut it);
        let _: Option<[i16; 2]> = Frame::from_samples(&mut it);
        let mut n = 0;
        for c in z.channels() {
            n += c as i32;
        }
        for c in z.channels_ref() {
            n += *c as i32;
        }
        let mut w = z;
        for c in w.channels_mut() {
            *c = 1;
        }
        let _ = (w.channel(1), w.channel(2), n);
        unsteady();
        kani::cover!(true, "end");
    });

    noalloc_harness!(
        /// borrowed-slice views and in-place slice operations
        slices, 9, {
        let mut data: [i16; 6] = [small_i16(), small_i16(), small_i16(), small_i16(), small_i16(), small_i16()];
        let other: [[i16; 2]; 3] = [[small_i16(), small_i16()], [small_i16(), small_i16()], [small_i16(), small_i16()]];
        let len: usize = kani::any();
        kani::assume(len <= 6);
        steady();
        {
            let v: Option<&[[i16; 2]]> = dasp_slice::to_frame_slice(&data[..len]);
            if let Some(fr) = v {
                let back: &[i16] = dasp_slice::to_sample_slice(fr);
                assert!(back.len() == len);
            }
            let v3: Option<&[[i16; 3]]> = dasp_slice::to_frame_slice(&data[..len]);
            let _ = v3.map(|f| f.len());
        }
        {
            let fr: &mut [[i16; 2]] = dasp_slice::to_frame_slice_mut(&mut data[..]).unwrap();
            dasp_slice::add_in_place(fr, &other[..]);
            dasp_slice::write(&mut fr[..1], &other[..1]);
            dasp_slice::map_in_place(fr, |f| [f[1], f[0]]);
            dasp_slice::add_in_place_with_amp_per_channel(fr, &other[..], [0.5f32, 1.0]);
            dasp_slice::equilibrium(&mut fr[1..]);
        }
        unsteady();
        kani::cover!(true, "end");
    });

    noalloc_harness!(
        /// ring buffers over array, borrowed-slice and user-supplied boxed storage (never resized or freed)
        ring_buffers, 9, {
        let mut backing = [0i16; 3];
        let boxed: Box<[i16]> = Box::new([0i16; 3]);
        let p0 = boxed.as_ptr();
        let mut b_arr = Bounded::from([0i16; 3]);
        let mut b_ref = Bounded::from(&mut backing[..]);
        let mut b_box = Bounded::from(boxed);
        let mut f_arr = Fixed::from([0i16; 3]);
        let allocs_before = unsafe { ALLOCS };
        steady();
        for _ in 0..4 {
            let x: i16 = kani::any();
            let do_pop: bool = kani::any();
            b_arr.push(x);
            b_ref.push(x);
            b_box.push(x);
            if do_pop {
                let _ = (b_arr.pop(), b_ref.pop(), b_box.pop());
            }
            let _ = f_arr.push(x);
        }
        let i: usize = kani::any();
        let _ = (b_arr.get(i), b_box.get(i), f_arr.get(i), b_arr.slices(), f_arr.slices());
        let mut acc = 0i32;
        for v in b_box.iter() {
            acc += *v as i32;
        }
        for v in f_arr.iter() {
            acc += *v as i32;
        }
        for v in b_arr.drain() {
            acc += v as i32;
        }
        f_arr.set_first(i);
        // Index / IndexMut (trait impls, not inherent methods) on live elements
        if b_box.len() > 0 {
            let j = i % b_box.len();
            acc += b_box[j] as i32;
            b_box[j] = 7;
        }
        if b_arr.len() > 0 {
            let j = i % b_arr.len();
            b_arr[j] = b_arr[j].wrapping_add(1);
        }
        acc += f_arr[i] as i32;
        f_arr[i] = 9;
        // Extend with more items than the buffer holds, with fewer, and with none
        let more: [i16; 5] = kani::any();
        f_arr.extend(more.iter().cloned());
        f_arr.extend(more[..2].iter().cloned());
        b_arr.extend(more.iter().cloned());
        b_ref.extend(more[..i % 3].iter().cloned());
        b_box.extend(more.iter().cloned());
        unsteady();
        assert!(unsafe { ALLOCS } == allocs_before);
        let (_, _, storage) = unsafe { b_box.into_raw_parts() };
        assert!(storage.as_ptr() == p0 && storage.len() == 3, "user-supplied heap storage is never resized");
        core::mem::forget(storage);
        let _ = acc;
        kani::cover!(true, "end");
    });

    noalloc_harness!(
        /// peak rectifiers, RMS detector, envelope follower
        peak_rms_envelope, 8, {
        use dasp_envelope::detect::Peak;
        use dasp_envelope::Detector;
        let mut rms: dasp_rms::Rms<[i16; 2], [[f32; 2]; 3]> = dasp_rms::Rms::new(Fixed::from([[0.0f32; 2]; 3]));
        let mut det: Detector<i16, Peak<dasp_peak::PositiveHalfWave>> =
            Detector::verif_with_gains(Peak::positive_half_wave(), 0.5, 0.25, 0);
        let mut det_rms: Detector<f32, dasp_rms::Rms<f32, [f32; 2]>> =
            Detector::verif_with_gains(dasp_rms::Rms::new(Fixed::from([0.0f32; 2])), 0.5, 0.25, 0.0);
        steady();
        for _ in 0..3 {
            let f: [i16; 2] = kani::any();
            let _ = rms.next_squared(f);
            let _ = rms.current();
            let x: i16 = kani::any();
            let _ = det.next(x);
            let y = kani::any::<i8>() as f32 / 16.0;
            let _ = det_rms.next(y);
            let _ = dasp_peak::full_wave([small_i16(), small_i16()]);
            let _ = dasp_peak::negative_half_wave(f);
        }
        rms.reset();
        unsteady();
        kani::cover!(true, "end");
    });

    noalloc_harness!(
        /// every signal source
        sources, 8, {
        let items: [[i16; 2]; 3] = kani::any();
        let samples: [i16; 5] = kani::any();
        let len: usize = kani::any();
        kani::assume(len <= 5);
        let mut eq = signal::equilibrium::<[i16; 2]>();
        let mut g = signal::gen(|| [1i16, 2]);
        let mut k = 0i16;
        let mut gm = signal::gen_mut(|| {
            k = k.wrapping_add(1);
            k
        });
        let mut fi = signal::from_iter(CountIter::new(items, if len < 3 { len } else { 3 }));
        let mut fs = signal::from_interleaved_samples_iter::<_, [i16; 2]>(CountIter::new(samples, len));
        let step: f64 = kani::any();
        kani::assume(step >= 0.0 && step <= 4.0);
        let mk = || signal::rate(1.0).const_hz(step);
        let (mut ph, mut si, mut sa, mut sq, mut ns) = (mk().phase(), mk().sine(), mk().saw(), mk().square(), mk().noise_simplex());
        let mut no = signal::noise(kani::any());
        let mut hz = signal::rate(44100.0).hz(signal::gen(|| 440.0f64)).sine();
        steady();
        for _ in 0..3 {
            let _ = (eq.next(), g.next(), gm.next(), fi.next(), fs.next(), fi.is_exhausted(), fs.is_exhausted());
            let _ = (ph.next(), si.next(), sa.next(), sq.next(), ns.next(), no.next(), hz.next());
        }
        unsteady();
        kani::cover!(true, "end");
    });

    noalloc_harness!(
        /// iterator-backed sources whose iterator OWNS heap memory (vec::IntoIter): running into and past
        /// the end of the data must neither allocate nor FREE - the storage is released when the signal is dropped
        sources_owning_heap_iterators, 8, {
        let frames: Vec<[i16; 2]> = vec![[1, 2], [3, 4], [5, 6]];
        let samples: Vec<i16> = vec![1, 2, 3, 4, 5];
        let mut fi = signal::from_iter(frames.into_iter());
        let mut fs = signal::from_interleaved_samples_iter::<_, [i16; 2]>(samples.into_iter());
        let frees_before = unsafe { FREES };
        steady();
        for _ in 0..5 {
            let _ = (fi.next(), fs.next(), fi.is_exhausted(), fs.is_exhausted());
        }
        unsteady();
        assert!(unsafe { FREES } == frees_before);
        drop(fi);
        drop(fs);
        assert!(unsafe { FREES } == frees_before + 2, "the iterators' storage is released when the signals are dropped");
        kani::cover!(true, "end");
    });

    noalloc_harness!(
        /// every adaptor, stacked; take / until_exhausted / interleaved output
        adaptors, 8, {
        let mut a: Probe<i16, 4> = Probe::new([small_i16(), small_i16(), small_i16(), small_i16()], { let l: usize = kani::any(); kani::assume(l <= 4); l });
        let mut b: Probe<i16, 4> = Probe::new([small_i16(), small_i16(), small_i16(), small_i16()], 4);
        let mut gains: Probe<f32, 4> = Probe::new([0.5, 1.0, 0.25, 0.0], 4);
        let d: usize = kani::any();
        kani::assume(d <= 2);
        let mut seen = 0i32;
        steady();
        {
            let mut s = a
                .by_ref()
                .map(|f: i16| f)
                .add_amp(b.by_ref().delay(d))
                .mul_amp(gains.by_ref())
                .scale_amp(0.5)
                .offset_amp(1)
                .offset_amp_per_channel(2i16)
                .scale_amp_per_channel(1.0f32)
                .clip_amp(3000)
                .inspect(|f| seen += *f as i32)
                .zip_map(signal::equilibrium::<i16>(), |x, y| x + y);
            for _ in 0..3 {
                let _ = (s.is_exhausted(), s.next());
            }
            let mut t = s.take(2);
            let _ = (t.next(), t.next(), t.next());
        }
        {
            let mut it = a.by_ref().until_exhausted();
            let _ = (it.next(), it.next());
        }
        {
            let mut il = b.by_ref().map(|f: i16| [f, f]).into_interleaved_samples();
            let _ = (il.next_sample(), il.next_sample(), il.next_sample());
        }
        unsteady();
        kani::cover!(true, "end");
    });

    noalloc_harness!(
        /// fork by reference, buffered
        fork_and_buffered, 10, {
        let src: Probe<i16, 6> = Probe::new(kani::any(), 6);
        let mut fork = src.clone().fork(Bounded::from([0i16; 2]));
        let mut buf = src.buffered(Bounded::from([0i16; 2]));
        steady();
        {
            let (mut x, mut y) = fork.by_ref();
            for _ in 0..4 {
                let pick: bool = kani::any();
                // lead bounded by the capacity: alternate at most two ahead
                if pick && x.pending_frames() == 0 && y.pending_frames() < 2 {
                    let _ = x.next();
                } else if y.pending_frames() == 0 && x.pending_frames() < 2 {
                    let _ = y.next();
                } else if x.pending_frames() > 0 {
                    let _ = x.next();
                } else {
                    let _ = y.next();
                }
            }
        }
        for _ in 0..3 {
            let _ = buf.next();
        }
        {
            let mut fr = buf.next_frames();
            let _ = (fr.next(), fr.next(), fr.next());
        }
        let _ = buf.is_exhausted();
        unsteady();
        kani::cover!(true, "end");
    });

    noalloc_harness!(
        /// reference-counted fork branches allocate at creation only
        fork_by_rc_allocates_only_at_creation, 8, {
        let src: Probe<i16, 6> = Probe::new(kani::any(), 6);
        let fork = src.fork(Bounded::from([0i16; 2]));
        let before = unsafe { ALLOCS };
        let (mut x, mut y) = fork.by_rc();
        assert!(unsafe { ALLOCS } == before + 1, "by_rc allocates exactly the shared state");
        steady();
        let _ = (x.next(), y.next(), y.next(), x.next(), x.pending_frames(), y.pending_frames());
        unsteady();
        core::mem::forget(x);
        core::mem::forget(y);
        kani::cover!(true, "end");
    });

    noalloc_harness!(
        /// rate conversion with every interpolator, and mul_hz (libm's sin / cos are replaced by
        /// constants: they are leaf calls into libm, not dasp code, and their values cannot influence
        /// which allocator calls are reachable)
        #[kani::stub(dasp_interpolate::sinc::ops::f64::sin, crate::c07_noalloc::const_quarter)]
        #[kani::stub(dasp_interpolate::sinc::ops::f64::cos, crate::c07_noalloc::const_quarter)]
        rate_conversion, 10, {
        use dasp_interpolate::{floor::Floor, linear::Linear, sinc::Sinc};
        let len: usize = kani::any();
        kani::assume(len <= 6);
        let mk = || -> Probe<f64, 6> { Probe::new([0.5, -0.25, 0.125, 0.0, 1.0, -1.0], len) };
        // concrete ratios (up-, down-sampling and a non-dyadic one); the source length is symbolic
        let mut cf = mk().scale_hz(Floor::new(0.0), 3.0);
        let mut cl = mk().from_hz_to_hz(Linear::new(0.0, 0.0), 2.0, 3.0);
        let mut cs = mk().scale_hz(Sinc::new(Fixed::from([0.0f64; 4])), 0.75);
        let mut mh = mk().mul_hz(Linear::new(0.0, 0.0), signal::gen(|| 0.75f64));
        steady();
        for _ in 0..3 {
            let _ = (cf.next(), cl.next(), cs.next(), mh.next(), cf.is_exhausted(), mh.is_exhausted());
        }
        cf.set_playback_hz_scale(2.0);
        let _ = cf.next();
        unsteady();
        kani::cover!(true, "end");
    });

    noalloc_harness!(
        /// windower, window, windowed chunks
        windows, 10, {
        use dasp_signal::window::{Window, Windower};
        let data: [[f32; 2]; 6] = [[0.5, -0.5]; 6];
        let bin: usize = kani::any();
        let hop: usize = kani::any();
        kani::assume(bin >= 2 && bin <= 4 && hop >= 1 && hop <= 3);
        let mut wr = Windower::rectangle(&data[..], bin, hop);
        let mut wh = Windower::hann(&data[..], bin, hop);
        let mut w: Window<[f32; 2], dasp_window::Hann> = Window::new(4);
        steady();
        for _ in 0..3 {
            let _ = wr.size_hint();
            if let Some(mut chunk) = wr.next() {
                let _ = (chunk.next(), chunk.next());
            }
            if let Some(mut chunk) = wh.next() {
                let _ = chunk.next();
            }
            let _ = w.next();
        }
        unsteady();
        kani::cover!(true, "end");
    });

    noalloc_harness!(
        /// the stock graph nodes driven directly (their buffers and the delay's ring buffers exist before)
        graph_nodes, 66, {
        use dasp_graph::node::{Delay, Pass, Sum, SumBuffers};
        use dasp_graph::{Buffer, Input, Node};
        let a = [Buffer::from([0.25f32; 64]), Buffer::from([0.5f32; 64])];
        let b = [Buffer::from([1.0f32; 64])];
        let mut out = [Buffer::SILENT, Buffer::SILENT];
        let mut delay = Delay(vec![rb_reg::Fixed::from([0.0f32; 2]), rb_reg::Fixed::from([0.0f32; 2])]);
        steady();
        {
            let ins = [Input::verif_new(&a), Input::verif_new(&b)];
            Sum.process(&ins, &mut out);
            SumBuffers.process(&ins, &mut out);
            Pass.process(&ins, &mut out);
            delay.process(&ins, &mut out);
            let mut by_ref = &mut delay;
            Node::process(&mut by_ref, &ins, &mut out);
        }
        unsteady();
        core::mem::forget(delay);
        kani::cover!(true, "end");
    });
}
