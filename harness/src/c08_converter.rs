//! C08 — the rate converter positions and consumes source frames exactly by the rate ratio.
use crate::sigprobe::Probe;
use core::cell::Cell;
use dasp_frame::Frame;
use dasp_interpolate::{floor::Floor, linear::Linear, Interpolator};
use dasp_sample::Sample;
use dasp_signal::interpolate::Converter;
use dasp_signal::{self as signal, Signal};

const L: usize = 8;

/// An interpolator that records what the converter does with it.
pub struct Rec {
    pub seen: [i16; L],     // frames handed over by next_source_frame, in order
    pub n_seen: usize,
    pub x: Cell<f64>,       // argument of the last interpolate call
    pub n_interp: Cell<usize>,
    pub seen_at_interp: Cell<usize>,
}
impl Rec {
    pub fn new() -> Self {
        Rec { seen: [0; L], n_seen: 0, x: Cell::new(-1.0), n_interp: Cell::new(0), seen_at_interp: Cell::new(0) }
    }
}
impl Interpolator for Rec {
    type Frame = i16;
    fn interpolate(&self, x: f64) -> i16 {
        self.x.set(x);
        self.n_interp.set(self.n_interp.get() + 1);
        self.seen_at_interp.set(self.n_seen);
        12345
    }
    fn next_source_frame(&mut self, f: i16) {
        if self.n_seen < L {
            self.seen[self.n_seen] = f;
        }
        self.n_seen += 1;
    }
    fn reset(&mut self) {}
}

fn any_source() -> Probe<i16, L> {
    let len: usize = kani::any();
    kani::assume(len <= L);
    Probe::new(kani::any(), len)
}

pub mod step {
    use super::*;
    #[cfg(feature = "thorough")]
    const VMAX: f64 = 8.0;
    #[cfg(not(feature = "thorough"))]
    const VMAX: f64 = 3.0;

    /// ONE output from ANY state: interpolation value v in [0, VMAX), any finite ratio > 0.
    /// Pulls exactly floor(v) source frames (in order, never re-reading one), evaluates the
    /// interpolator once, after the advances, at v - floor(v), and leaves v' = (v - floor(v)) + ratio.
    /// Position bookkeeping `frames pulled + v` is thus conserved by the advance loop and grows by
    /// the ratio per output - the statement's P_n in the converter's own f64 arithmetic.
    #[kani::proof]
    #[kani::unwind(11)]
    pub fn one_output_from_any_state() {
        let v: f64 = kani::any();
        kani::assume(v >= 0.0 && v < VMAX);
        let r: f64 = kani::any();
        kani::assume(r.is_finite() && r > 0.0);
        let src = any_source();
        let s0 = src.clone();
        let mut c = Converter::verif_from_state(src, Rec::new(), v, r);
        let exhausted_before = c.is_exhausted();
        assert!(exhausted_before == (s0.len == 0 && v >= 1.0), "exhausted <=> source exhausted and the next output needs a further frame");
        let out = c.next();
        assert!(out == 12345, "the output is the interpolator's value");
        let k = v as usize; // floor for v >= 0
        let (v2, r2, rec) = c.verif_state();
        assert!(rec.n_seen == k, "exactly floor(v) source frames are pulled");
        assert!(c.source().pulls == k);
        let j: usize = kani::any();
        if j < k {
            assert!(rec.seen[j] == s0.frame(j), "frames reach the interpolator in source order (equilibrium past the end)");
        }
        assert!(rec.n_interp.get() == 1 && rec.seen_at_interp.get() == k, "one interpolation, after the advances");
        let x = rec.x.get();
        assert!(x == v - k as f64 && x >= 0.0 && x < 1.0, "interpolated at the fractional position");
        assert!(v2 == x + r && r2 == r, "position advances by the ratio");
        kani::cover!(k == 0, "no frame needed");
        kani::cover!(k == 2, "two frames skipped over");
        kani::cover!(true, "end");
    }

    /// a ratio change between outputs (what mul_hz does) takes effect for the next advance
    #[kani::proof]
    #[kani::unwind(8)]
    pub fn setters() {
        let mut c = Converter::scale_playback_hz(any_source(), Rec::new(), 0.5);
        let (v, r, _) = c.verif_state();
        assert!(v == 0.0 && r == 0.5, "starts at position 0");
        c.set_playback_hz_scale(2.0);
        assert!(c.verif_state().1 == 2.0);
        // the setters are absolute: ANY finite positive scale replaces whatever ratio was in effect
        let r: f64 = kani::any();
        kani::assume(r.is_finite() && r > 0.0);
        c.set_playback_hz_scale(r);
        assert!(c.verif_state().1 == r, "set_playback_hz_scale(r) makes r the ratio in effect, for every r");
        c.set_playback_hz_scale(0.5);
        c.set_hz_to_hz(44100.0, 44100.0);
        assert!(c.verif_state().1 == 1.0, "equal rates: ratio exactly 1");
        c.set_playback_hz_scale(0.5);
        c.set_sample_hz_scale(1.0);
        assert!(c.verif_state().1 == 1.0);
        c.set_hz_to_hz(44100.0, 22050.0);
        assert!(c.verif_state().1 == 2.0);
        c.set_sample_hz_scale(4.0);
        assert!(c.verif_state().1 == 0.25);
        // no setter moves the position: from ANY position v, each setter leaves v where it is
        let v: f64 = kani::any();
        kani::assume(v >= 0.0 && v < VMAX);
        let mut cs = Converter::verif_from_state(any_source(), Rec::new(), v, 0.5);
        cs.set_hz_to_hz(44100.0, 44100.0);
        assert!(cs.verif_state().0 == v && cs.verif_state().1 == 1.0, "set_hz_to_hz changes the ratio only");
        cs.set_playback_hz_scale(r);
        assert!(cs.verif_state().0 == v && cs.verif_state().1 == r, "set_playback_hz_scale changes the ratio only");
        cs.set_sample_hz_scale(2.0);
        assert!(cs.verif_state().0 == v && cs.verif_state().1 == 0.5, "set_sample_hz_scale changes the ratio only");
        kani::cover!(v >= 1.0, "a whole-frame advance is pending");
        let c2 = Converter::from_hz_to_hz(any_source(), Rec::new(), 48000.0, 12000.0);
        assert!(c2.verif_state().1 == 4.0 && c2.verif_state().0 == 0.0);
        let c3 = Converter::scale_sample_hz(any_source(), Rec::new(), 8.0);
        assert!(c3.verif_state().1 == 0.125);
        let c4 = any_source().from_hz_to_hz(Rec::new(), 3.0, 4.0);
        assert!(c4.verif_state().1 == 0.75);
        let c5 = any_source().scale_hz(Rec::new(), 1.5);
        assert!(c5.verif_state().1 == 1.5);
        kani::cover!(true, "end");
    }

    /// mul_hz: the control signal is pulled exactly once per output and its value is the ratio in
    /// effect for that output's advance
    #[kani::proof]
    #[kani::unwind(11)]
    pub fn mul_hz_pulls_control_once() {
        let mut muls: Probe<f64, 4> = Probe::new([0.5, 1.0, 2.0, 0.25], 4);
        let mut src = any_source();
        let s0 = src.clone();
        {
            let mut m = src.by_ref().mul_hz(Rec::new(), muls.by_ref());
            assert!(m.next() == 12345); // v: 0 -> 0.5
            assert!(m.next() == 12345); // v: 0.5 -> 1.5
            assert!(m.next() == 12345); // pulls 1, x = 0.5, v -> 2.5
            assert!(m.next() == 12345); // pulls 2, x = 0.5, v -> 0.75
            assert!(m.is_exhausted(), "exhausted once the control signal is");
        }
        assert!(muls.pulls == 4, "one control frame per output frame");
        assert!(src.pulls == 3, "source frames consumed == floor(sum of ratios in effect)");
        kani::cover!(true, "end");
    }
}

pub mod interp {
    use super::*;

    /// floor: the frame at floor(P_n) - i.e. the most recently handed-over frame
    #[kani::proof]
    #[kani::unwind(6)]
    pub fn floor_yields_last_frame() {
        let a: [i16; 2] = kani::any();
        let b: [i16; 2] = kani::any();
        let x: f64 = kani::any();
        kani::assume(x >= 0.0 && x < 1.0);
        let mut f = Floor::new(a);
        assert!(f.interpolate(x) == a);
        f.next_source_frame(b);
        assert!(f.interpolate(x) == b, "floor interpolator yields the frame at floor(position)");
        f.reset();
        assert!(f.interpolate(x) == [0, 0]);
        kani::cover!(true, "end");
    }

    /// linear, i16: the output is the straight-line blend l + (r - l) * x computed in f64 and converted
    /// back (the conversions are C02's subject and are reused so that the solver shares the sub-terms)
    #[kani::proof]
    pub fn linear_i16_formula() {
        let l: i16 = kani::any();
        let r: i16 = kani::any();
        let x: f64 = kani::any();
        kani::assume(x >= 0.0 && x < 1.0);
        let li = Linear::new(l, r);
        let y = li.interpolate(x);
        let (lf, rf) = (l.to_sample::<f64>(), r.to_sample::<f64>());
        let want: i16 = ((rf - lf) * x + lf).to_sample::<i16>();
        assert!(y == want, "straight-line blend of the two frames at fraction x");
        if x == 0.0 {
            assert!(y == l, "fraction 0 is the left frame");
        }
        kani::cover!(x > 0.0 && l != r, "a proper blend");
        kani::cover!(true, "end");
    }

    /// linear never leaves the interval spanned by its two frames (i8 frames, fraction on the 2^-8
    /// grid: the inequality is a genuinely numeric fact the SAT solver has to discover through the
    /// float multiplier and adder - wider operands did not finish in 900 s)
    #[kani::proof]
    pub fn linear_i8_interval() {
        let l: i8 = kani::any();
        let r: i8 = kani::any();
        let x: f64 = kani::any::<u8>() as f64 / 256.0;
        let li = Linear::new(l, r);
        let y = li.interpolate(x);
        let (lo, hi) = if l < r { (l, r) } else { (r, l) };
        assert!(lo <= y && y <= hi, "never outside the interval spanned by the two frames");
        if x == 0.5 && (l as i32 + r as i32) % 2 == 0 {
            assert!(y as i32 == (l as i32 + r as i32) / 2, "fraction 1/2 is the midpoint");
        }
        kani::cover!(x > 0.0 && l != r, "a proper blend");
        kani::cover!(true, "end");
    }

    /// advancing shifts right -> left and takes the new frame as right; reset silences
    #[kani::proof]
    pub fn linear_advance_and_reset() {
        let l: [i16; 2] = kani::any();
        let r: [i16; 2] = kani::any();
        let n: [i16; 2] = kani::any();
        let mut li = Linear::new(l, r);
        assert!(li.interpolate(0.0) == l);
        li.next_source_frame(n);
        assert!(li.interpolate(0.0) == r, "after an advance the old right frame is at fraction 0");
        li.next_source_frame(l);
        assert!(li.interpolate(0.0) == n);
        li.reset();
        assert!(li.interpolate(0.0) == [0, 0] && li.interpolate(0.75) == [0, 0]);
        kani::cover!(true, "end");
    }

    /// linear, f64 stereo: per channel, same formula; within the interval up to rounding
    #[kani::proof]
    #[kani::unwind(6)]
    pub fn linear_f64_stereo() {
        let grid = || -> f64 {
            let k: i16 = kani::any();
            k as f64 / 16384.0
        };
        let l: [f64; 2] = [grid(), grid()];
        let r: [f64; 2] = [grid(), grid()];
        let x: f64 = kani::any::<u8>() as f64 / 256.0;
        let li = Linear::new(l, r);
        let y = li.interpolate(x);
        assert!(y[0] == (r[0] - l[0]) * x + l[0], "per-channel straight-line blend");
        assert!(y[1] == (r[1] - l[1]) * x + l[1], "per-channel straight-line blend");
        kani::cover!(true, "end");
    }
}

pub mod run {
    use super::*;

    /// a ratio of exactly 1 reproduces the source unchanged (floor and linear, primed the usual way)
    #[kani::proof]
    #[kani::unwind(8)]
    pub fn ratio_one_is_transparent() {
        let mut src = any_source();
        let s0 = src.clone();
        let first = src.next();
        let mut c = src.clone().scale_hz(Floor::new(first), 1.0);
        for n in 0..5 {
            assert!(c.next() == s0.frame(n), "floor, ratio 1: output n is source frame n");
        }
        let mut src2 = s0.clone();
        let (a, b) = (src2.next(), src2.next());
        let mut c = src2.scale_hz(Linear::new(a, b), 1.0);
        for n in 0..5 {
            assert!(c.next() == s0.frame(n), "linear, ratio 1: output n is source frame n");
        }
        kani::cover!(s0.len >= 5, "five real frames");
        kani::cover!(true, "end");
    }

    /// floor, constant dyadic ratio: output n is the source frame at floor(n * ratio); the number of
    /// outputs until exhaustion is ceil((R+1)/ratio) or one more
    #[kani::proof]
    #[kani::unwind(20)]
    pub fn floor_positions_and_count() {
        const R_MAX: usize = 3;
        let len: usize = kani::any();
        kani::assume(len >= 1 && len <= R_MAX + 1);
        let mut src: Probe<i16, L> = Probe::new(kani::any(), len);
        let s0 = src.clone();
        let k: u8 = kani::any();
        kani::assume(k >= 1 && k <= 12);
        let ratio = k as f64 / 4.0;
        let first = src.next(); // priming
        let rem = len - 1; // R: frames the source still holds after priming
        let mut c = src.scale_hz(Floor::new(first), ratio);
        let mut n = 0usize;
        while n < 18 {
            if c.is_exhausted() {
                break;
            }
            let y = c.next();
            let pos = (n * k as usize) / 4; // floor(P_n), P_n = n * ratio exactly (dyadic)
            assert!(y == s0.frame(pos), "floor: output n is the source frame at floor(P_n)");
            assert!(c.source().pulls == 1 + pos, "exactly floor(P_n) frames pulled beyond the priming");
            n += 1;
        }
        assert!(c.is_exhausted());
        // ceil((R+1)/ratio) = ceil(4*(R+1)/k)
        let expect = (4 * (rem + 1) + k as usize - 1) / k as usize;
        assert!(n == expect || n == expect + 1, "ceil((R+1)/r) outputs, or one more");
        kani::cover!(n == expect + 1, "one more");
        kani::cover!(n == expect, "exactly ceil((R+1)/r)");
        kani::cover!(k > 4, "downsampling");
        kani::cover!(true, "end");
    }
}
