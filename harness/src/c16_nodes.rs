//! C16 — the built-in graph nodes compute their documented mixing / routing / delay functions.
//!
//! Nodes are driven directly through `Node::process(&[Input], &mut [Buffer])`; inputs are made with
//! the cfg(rustaudio_dasp_verif) hook `Input::verif_new`.  All 64-sample buffer contents are symbolic;
//! assertions are made at a symbolic sample index.  dasp_graph links the crates.io dasp_slice /
//! dasp_ring_buffer / dasp_signal 0.11.0 (see /repo/Cargo.lock), so `Delay` is built over the registry
//! ring buffer and the signal node over the registry `Signal` trait.
use dasp_graph::node::{Delay, Pass, Sum, SumBuffers};
use dasp_graph::{BoxedNode, BoxedNodeSend, Buffer, Input, Node};

const LEN: usize = 64;

/// a buffer whose 64 samples are arbitrary finite values of magnitude <= 2^20 (no NaN / infinity)
fn any_buffer() -> Buffer {
    let mut a = [0.0f32; LEN];
    let mut i = 0;
    while i < LEN {
        let v: f32 = kani::any();
        kani::assume(v >= -1048576.0 && v <= 1048576.0);
        a[i] = v;
        i += 1;
    }
    Buffer::from(a)
}
fn any_t() -> usize {
    let t: usize = kani::any();
    kani::assume(t < LEN);
    t
}

pub mod sum {
    use super::*;

    #[kani::proof]
    #[kani::unwind(66)]
    pub fn no_input() {
        let mut out = [any_buffer()];
        Sum.process(&[], &mut out);
        assert!(out[0][any_t()] == 0.0, "no inputs: silence");
        let mut out = [any_buffer(), any_buffer()];
        SumBuffers.process(&[], &mut out);
        let t = any_t();
        assert!(out[0][t] == 0.0 && out[1][t] == 0.0);
        kani::cover!(true, "end");
    }

    /// one input with 2 buffers, one output: channel 0 only (the input's extra channel is ignored)
    #[kani::proof]
    #[kani::unwind(66)]
    pub fn one_input_two_buffers_one_output() {
        let inb = [any_buffer(), any_buffer()];
        let mut out = [any_buffer()];
        Sum.process(&[Input::verif_new(&inb)], &mut out);
        let t = any_t();
        assert!(out[0][t] == 0.0 + inb[0][t], "output channel c = sum over inputs that have channel c");
        kani::cover!(true, "end");
    }

    /// one input with 1 buffer, two outputs: the second output channel has no contributor: silent
    #[kani::proof]
    #[kani::unwind(66)]
    pub fn one_input_one_buffer_two_outputs() {
        let inb = [any_buffer()];
        let mut out = [any_buffer(), any_buffer()];
        Sum.process(&[Input::verif_new(&inb)], &mut out);
        let t = any_t();
        assert!(out[0][t] == 0.0 + inb[0][t]);
        assert!(out[1][t] == 0.0, "channels no input has are silent");
        kani::cover!(true, "end");
    }

    /// two inputs with one buffer each, one output (the cheapest two-input shape: quick tier)
    #[kani::proof]
    #[kani::unwind(66)]
    pub fn two_inputs_one_channel() {
        let a = [any_buffer()];
        let b = [any_buffer()];
        let mut out = [any_buffer()];
        Sum.process(&[Input::verif_new(&a), Input::verif_new(&b)], &mut out);
        const TS: [usize; 3] = [0, 17, 63];
        let mut i = 0;
        while i < 3 {
            let t = TS[i];
            assert!(out[0][t] == (0.0 + a[0][t]) + b[0][t], "sum over both inputs, in input order");
            i += 1;
        }
        kani::cover!(true, "end");
    }

    /// two inputs with (2, 1) buffers, two outputs
    #[kani::proof]
    #[kani::unwind(66)]
    pub fn two_inputs_mismatched_channels() {
        let a = [any_buffer(), any_buffer()];
        let b = [any_buffer()];
        let mut out = [any_buffer(), any_buffer()];
        Sum.process(&[Input::verif_new(&a), Input::verif_new(&b)], &mut out);
        // concrete sample indices (first, middle, last): with a symbolic index all 64 chained float
        // additions stay in the solver's cone of influence and the query does not finish in 900 s
        const TS: [usize; 3] = [0, 17, 63];
        let mut i = 0;
        while i < 3 {
            let t = TS[i];
            assert!(out[0][t] == (0.0 + a[0][t]) + b[0][t], "channel 0: both inputs");
            assert!(out[1][t] == 0.0 + a[1][t], "channel 1: only the input that has it");
            i += 1;
        }
        kani::cover!(true, "end");
    }

    /// SumBuffers: every output buffer = sum of ALL buffers of ALL inputs
    #[kani::proof]
    #[kani::unwind(66)]
    pub fn sum_buffers() {
        let a = [any_buffer(), any_buffer()];
        let b = [any_buffer()];
        let mut out = [any_buffer(), any_buffer()];
        SumBuffers.process(&[Input::verif_new(&a), Input::verif_new(&b)], &mut out);
        const TS: [usize; 3] = [0, 17, 63];
        let mut i = 0;
        while i < 3 {
            let t = TS[i];
            let want = ((0.0 + a[0][t]) + a[1][t]) + b[0][t];
            assert!(out[0][t] == want && out[1][t] == want, "every output holds the sum of all buffers of all inputs");
            i += 1;
        }
        let mut none: [Buffer; 0] = [];
        SumBuffers.process(&[Input::verif_new(&a)], &mut none);
        kani::cover!(true, "end");
    }
}

pub mod pass {
    use super::*;
    /// copies the first input's buffers onto the corresponding outputs; surplus outputs untouched;
    /// further inputs ignored; no input: nothing touched
    #[kani::proof]
    #[kani::unwind(66)]
    pub fn routes_first_input() {
        let a = [any_buffer(), any_buffer()];
        let b = [any_buffer(), any_buffer(), any_buffer()];
        let mut out = [any_buffer(), any_buffer(), any_buffer()];
        let before2 = out[2].clone();
        Pass.process(&[Input::verif_new(&a), Input::verif_new(&b)], &mut out);
        let t = any_t();
        assert!(out[0][t] == a[0][t] && out[1][t] == a[1][t], "copied unchanged");
        assert!(out[2][t] == before2[t], "surplus outputs untouched");
        let mut out = [any_buffer()];
        let before = out[0].clone();
        Pass.process(&[], &mut out);
        assert!(out[0][t] == before[t], "no input: untouched");
        // more input buffers than outputs: the extra input buffer is ignored
        let mut out = [any_buffer()];
        Pass.process(&[Input::verif_new(&b)], &mut out);
        assert!(out[0][t] == b[0][t]);
        kani::cover!(true, "end");
    }
}

pub mod delay {
    use super::*;
    use rb_reg::Fixed;

    macro_rules! delay_d {
        ($name:ident, $d:expr) => {
            /// delays by exactly the ring buffer's length, continuously across two process calls,
            /// the ring buffer's initial content first
            #[kani::proof]
            #[kani::unwind(66)]
            pub fn $name() {
                const D: usize = $d;
                let mut init = [0.0f32; D];
                for i in 0..D {
                    init[i] = kani::any();
                    kani::assume(init[i] >= -1048576.0 && init[i] <= 1048576.0);
                }
                let mut node = Delay(vec![Fixed::from(init)]);
                let in1 = [any_buffer()];
                let in2 = [any_buffer()];
                let mut out = [any_buffer()];
                let t = any_t();
                node.process(&[Input::verif_new(&in1)], &mut out);
                // stream position of out[t] in call 1 is t; it shows the sample D positions earlier
                let want1 = if t < D { init[t] } else { in1[0][t - D] };
                assert!(out[0][t] == want1, "call 1: out[t] == stream[t - D], initial content first");
                node.process(&[Input::verif_new(&in2)], &mut out);
                let want2 = if t < D { in1[0][LEN - D + t] } else { in2[0][t - D] };
                assert!(out[0][t] == want2, "call 2 continues the same delay line across the call boundary");
                core::mem::forget(node);
                kani::cover!(t < D, "a sample that crosses the call boundary");
                kani::cover!(true, "end");
            }
        };
    }
    delay_d!(d1, 1);
    delay_d!(d2, 2);
    delay_d!(d3, 3);

    /// delay lines LONGER than one 64-sample buffer (65: just over; 100: not a multiple of 64), three
    /// consecutive calls so that the ring buffer wraps inside a call; contents concrete and distinct
    /// (the stream positions matter here, not the values), assertion at every sample index
    #[kani::proof]
    #[kani::unwind(102)]
    pub fn long_delay_across_calls() {
        let mut node = Delay(vec![Fixed::from(vec![-1.0f32; 65]), Fixed::from(vec![-1.0f32; 100])]);
        let mut out = [Buffer::SILENT, Buffer::SILENT];
        let mut call = 0usize;
        while call < 3 {
            let mut a = [0.0f32; LEN];
            let mut i = 0;
            while i < LEN {
                a[i] = (call * LEN + i) as f32; // stream sample number
                i += 1;
            }
            let inb = [Buffer::from(a), Buffer::from(a)];
            node.process(&[Input::verif_new(&inb)], &mut out);
            let mut t = 0;
            while t < LEN {
                let pos = call * LEN + t;
                let want65 = if pos < 65 { -1.0 } else { (pos - 65) as f32 };
                let want100 = if pos < 100 { -1.0 } else { (pos - 100) as f32 };
                assert!(out[0][t] == want65, "channel delayed by exactly 65 samples across calls");
                assert!(out[1][t] == want100, "channel delayed by exactly 100 samples across calls");
                t += 1;
            }
            call += 1;
        }
        core::mem::forget(node);
        kani::cover!(true, "end");
    }

    /// per-channel ring buffers of different lengths; channels beyond the shortest of
    /// (ring buffers, input buffers, outputs) are untouched; no input: nothing happens
    #[kani::proof]
    #[kani::unwind(66)]
    pub fn per_channel_lengths() {
        let mut node = Delay(vec![Fixed::from(vec![0.5f32; 1]), Fixed::from(vec![0.25f32; 2])]);
        let inb = [any_buffer(), any_buffer(), any_buffer()];
        let mut out = [any_buffer(), any_buffer(), any_buffer()];
        let before2 = out[2].clone();
        let t = any_t();
        node.process(&[], &mut out);
        node.process(&[Input::verif_new(&inb)], &mut out);
        assert!(out[0][t] == if t < 1 { 0.5 } else { inb[0][t - 1] }, "channel 0 delayed by 1");
        assert!(out[1][t] == if t < 2 { 0.25 } else { inb[1][t - 2] }, "channel 1 delayed by 2");
        assert!(out[2][t] == before2[t], "no ring buffer for channel 2: untouched");
        core::mem::forget(node);
        kani::cover!(true, "end");
    }
}

pub mod signal_node {
    use super::*;
    use frame_reg::Frame as RegFrame;
    use sig_reg::Signal as RegSignal;

    /// yields [n, -n] for n = 0, 1, 2, ...
    pub struct Counter {
        pub n: u32,
    }
    impl RegSignal for Counter {
        type Frame = [f32; 2];
        fn next(&mut self) -> [f32; 2] {
            let v = self.n as f32;
            self.n += 1;
            [v, -v]
        }
    }

    /// a signal node writes successive frames de-interleaved, one buffer length per call; output
    /// channels beyond the frame's channel count are untouched
    #[kani::proof]
    #[kani::unwind(66)]
    pub fn deinterleaves_successive_frames() {
        let start: u16 = kani::any();
        let mut c = Counter { n: start as u32 };
        let mut out = [any_buffer(), any_buffer(), any_buffer()];
        let before2 = out[2].clone();
        let t = any_t();
        {
            let node: &mut dyn RegSignal<Frame = [f32; 2]> = &mut c;
            node.process(&[], &mut out);
        }
        assert!(out[0][t] == (start as u32 + t as u32) as f32, "channel 0 of frame t");
        assert!(out[1][t] == -((start as u32 + t as u32) as f32), "channel 1 of frame t");
        assert!(out[2][t] == before2[t], "channels beyond the frame width untouched");
        assert!(c.n == start as u32 + LEN as u32, "one buffer length of frames per call");
        {
            let node: &mut dyn RegSignal<Frame = [f32; 2]> = &mut c;
            node.process(&[], &mut out[..1]);
        }
        assert!(out[0][t] == (start as u32 + (LEN + t) as u32) as f32, "second call continues the signal");
        kani::cover!(true, "end");
    }
}

pub mod signal_node_finite {
    use super::*;
    use sig_reg::Signal as RegSignal;

    /// yields `len` frames [n+1, -(n+1)] and reports exhaustion afterwards, like an iterator-backed signal
    pub struct Finite {
        pub n: u32,
        pub len: u32,
    }
    impl RegSignal for Finite {
        type Frame = [f32; 2];
        fn next(&mut self) -> [f32; 2] {
            let v = if self.n < self.len { (self.n + 1) as f32 } else { 0.0 };
            self.n += 1;
            [v, -v]
        }
        fn is_exhausted(&self) -> bool {
            self.n >= self.len
        }
    }

    /// a signal that ends (mid-block, at a block boundary, or before the first block) keeps being
    /// rendered: one buffer length of frames per call - silence once the signal has run out - and the
    /// signal keeps advancing
    #[kani::proof]
    #[kani::unwind(66)]
    pub fn finite_signal_keeps_rendering() {
        let len: u32 = kani::any();
        kani::assume(len <= 70);
        let mut sig = Finite { n: 0, len };
        let mut out = [any_buffer(), any_buffer()];
        let t = any_t();
        for call in 0..2u32 {
            {
                let node: &mut dyn RegSignal<Frame = [f32; 2]> = &mut sig;
                node.process(&[], &mut out);
            }
            let idx = call * LEN as u32 + t as u32;
            let want = if idx < len { (idx + 1) as f32 } else { 0.0 };
            assert!(out[0][t] == want && out[1][t] == -want, "frame 64*call + t of the signal (silence past its end)");
            assert!(sig.n == (call + 1) * LEN as u32, "one buffer length of frames per call, exhausted or not");
        }
        kani::cover!(len == 0, "exhausted before the first block");
        kani::cover!(len == 64, "ends exactly at the block boundary");
        kani::cover!(len > 0 && len < 64, "ends mid-block");
        kani::cover!(true, "end");
    }
}

pub mod wrappers {
    use super::*;

    /// remembers what it was called with and writes a recognisable pattern
    pub struct Recorder {
        pub calls: usize,
        pub n_inputs: usize,
        pub in0_ptr: usize,
        pub n_out: usize,
        pub out_ptr: usize,
    }
    impl Recorder {
        pub fn new() -> Self {
            Recorder { calls: 0, n_inputs: 0, in0_ptr: 0, n_out: 0, out_ptr: 0 }
        }
    }
    impl Node for Recorder {
        fn process(&mut self, inputs: &[Input], output: &mut [Buffer]) {
            self.calls += 1;
            self.n_inputs = inputs.len();
            self.in0_ptr = if inputs.len() > 0 { inputs[0].buffers().as_ptr() as usize } else { 0 };
            self.n_out = output.len();
            self.out_ptr = output.as_ptr() as usize;
            if output.len() > 0 && inputs.len() > 0 {
                output[0][7] = inputs[0].buffers()[0][7] + 1.0;
            }
        }
    }
    static mut FN_CALLS: usize = 0;
    fn plain_fn(inputs: &[Input], output: &mut [Buffer]) {
        unsafe { FN_CALLS += 1 };
        if output.len() > 0 && inputs.len() > 0 {
            output[0][7] = inputs[0].buffers()[0][7] + 2.0;
        }
    }

    /// &mut T, Box<T>, BoxedNode, BoxedNodeSend forward the very same arguments exactly once
    #[kani::proof]
    #[kani::unwind(66)]
    pub fn forwarding() {
        let k: i16 = kani::any();
        let mut a = [0.0f32; LEN];
        a[7] = k as f32 / 256.0;
        let inb = [Buffer::from(a)];
        let mut out = [Buffer::SILENT, Buffer::SILENT];
        let ins = [Input::verif_new(&inb)];
        let in_ptr = inb.as_ptr() as usize;
        let out_ptr = out.as_ptr() as usize;

        let mut r = Recorder::new();
        {
            let mut by_ref: &mut Recorder = &mut r;
            Node::process(&mut by_ref, &ins, &mut out);
        }
        assert!(r.calls == 1 && r.n_inputs == 1 && r.in0_ptr == in_ptr && r.n_out == 2 && r.out_ptr == out_ptr);
        assert!(out[0][7] == a[7] + 1.0, "the wrapped node's effect on the buffers is what the caller sees");

        let mut boxed: Box<Recorder> = Box::new(Recorder::new());
        out[0][7] = 0.0;
        Node::process(&mut boxed, &ins, &mut out);
        assert!(boxed.calls == 1 && boxed.in0_ptr == in_ptr && boxed.n_out == 2 && boxed.out_ptr == out_ptr);
        assert!(out[0][7] == a[7] + 1.0);

        let mut bn = BoxedNode::new(Recorder::new());
        out[0][7] = 0.0;
        bn.process(&ins, &mut out);
        assert!(out[0][7] == a[7] + 1.0, "BoxedNode behaves like the node it wraps");
        let mut bns = BoxedNodeSend::new(Recorder::new());
        out[0][7] = 0.0;
        bns.process(&ins, &mut out);
        assert!(out[0][7] == a[7] + 1.0, "BoxedNodeSend behaves like the node it wraps");
        core::mem::forget(bn);
        core::mem::forget(bns);
        core::mem::forget(boxed);
        kani::cover!(true, "end");
    }

    /// closures (dyn Fn, dyn FnMut) and function pointers
    #[kani::proof]
    #[kani::unwind(66)]
    pub fn closures_and_fn_pointers() {
        let k: i16 = kani::any();
        let mut a = [0.0f32; LEN];
        a[7] = k as f32 / 256.0;
        let inb = [Buffer::from(a)];
        let mut out = [Buffer::SILENT];
        let ins = [Input::verif_new(&inb)];

        let mut fp: fn(&[Input], &mut [Buffer]) = plain_fn;
        fp.process(&ins, &mut out);
        assert!(out[0][7] == a[7] + 2.0 && unsafe { FN_CALLS } == 1, "fn pointer node == the function");

        {
            let mut cl = |inputs: &[Input], output: &mut [Buffer]| {
                unsafe { FN_CALLS += 10 };
                output[0][7] = inputs[0].buffers()[0][7] + 3.0;
            };
            let node: &mut dyn FnMut(&[Input], &mut [Buffer]) = &mut cl;
            node.process(&ins, &mut out);
        }
        assert!(out[0][7] == a[7] + 3.0 && unsafe { FN_CALLS } == 11, "FnMut closure node == the closure, called once");
        {
            let cl = |inputs: &[Input], output: &mut [Buffer]| {
                output[0][7] = inputs[0].buffers()[0][7] + 4.0;
            };
            let mut node: Box<dyn Fn(&[Input], &mut [Buffer])> = Box::new(cl);
            node.process(&ins, &mut out);
            core::mem::forget(node);
        }
        assert!(out[0][7] == a[7] + 4.0, "Fn closure node == the closure");
        kani::cover!(true, "end");
    }

    /// Buffer basics the nodes rely on
    #[kani::proof]
    #[kani::unwind(66)]
    pub fn buffer() {
        let mut b = any_buffer();
        assert!(b.len() == LEN && Buffer::LEN == LEN);
        let t = any_t();
        let c = b.clone();
        assert!(c[t] == b[t]);
        b.silence();
        assert!(b[t] == 0.0 && Buffer::SILENT[t] == 0.0 && Buffer::default()[t] == 0.0);
        kani::cover!(true, "end");
    }
}
