//! C11 (no_std build) — the approximate square root: within 7 % relative error, negligible at zero,
//! NaN for negative input.  Built with the dasp crates' `std` feature OFF.
use dasp_sample::FloatSample;

#[kani::proof]
pub fn sqrt_f32_within_7_percent() {
    let x: f32 = kani::any();
    kani::assume(x >= 7.888609e-31 && x <= 1.2676506e30); // [2^-100, 2^100]
    let r = x.sample_sqrt();
    assert!(r > 0.0 && r.is_finite());
    let rr = (r as f64) * (r as f64); // exact in f64
    assert!(rr >= 0.93 * 0.93 * (x as f64) && rr <= 1.07 * 1.07 * (x as f64), "relative error of sqrt below 7 %");
    kani::cover!(true, "end");
}

#[kani::proof]
pub fn sqrt_f32_edges() {
    assert!(0.0f32.sample_sqrt().abs() < 1.0e-18, "negligible absolute term at zero");
    let n: f32 = kani::any();
    kani::assume(n < 0.0);
    assert!(n.sample_sqrt().is_nan(), "negative input gives NaN");
    // monotone on the normal range: used by the RMS never-negative clause
    let a: f32 = kani::any();
    let b: f32 = kani::any();
    // (sign-positive inputs: the RMS detector only ever takes the root of a clamped, non-negative
    // mean square, which is +0.0 or positive - `-0.0` never reaches sample_sqrt there)
    kani::assume(a >= 0.0 && a.is_sign_positive() && b >= a && b <= 1.0e30);
    assert!(a.sample_sqrt() <= b.sample_sqrt());
    kani::cover!(true, "end");
}

#[kani::proof]
pub fn sqrt_f64_within_7_percent() {
    let x: f64 = kani::any();
    kani::assume(x >= 7.888609052210118e-31 && x <= 1.2676506002282294e30);
    let r = x.sample_sqrt();
    assert!(r > 0.0 && r.is_finite());
    // r*r in f64: one rounding (2^-53 relative) - far inside the margin between 6.1 % (the
    // method's worst case) and 7 %
    let rr = r * r;
    assert!(rr >= 0.93 * 0.93 * x && rr <= 1.07 * 1.07 * x, "relative error of sqrt below 7 %");
    kani::cover!(true, "end");
}

#[kani::proof]
pub fn sqrt_f64_edges() {
    assert!(0.0f64.sample_sqrt().abs() < 1.0e-150, "negligible absolute term at zero");
    let n: f64 = kani::any();
    kani::assume(n < 0.0);
    assert!(n.sample_sqrt().is_nan(), "negative input gives NaN");
    kani::cover!(true, "end");
}

/// the RMS detector in the no_std build: output within 7 % of the square root of the mean square
#[kani::proof]
#[kani::unwind(6)]
pub fn rms_no_std_f32() {
    use dasp_ring_buffer::Fixed;
    use dasp_rms::Rms;
    let x: f32 = kani::any();
    kani::assume(x.abs() >= 1.0e-10 && x.abs() <= 1.0e10);
    let mut a: Rms<f32, [f32; 2]> = Rms::new(Fixed::from([0.0f32; 2]));
    let mut b = a.clone();
    let r = a.next(x);
    let sq = b.next_squared(x);
    assert!(r >= 0.0 && !r.is_nan());
    let rr = (r as f64) * (r as f64);
    assert!(rr >= 0.93 * 0.93 * (sq as f64) && rr <= 1.07 * 1.07 * (sq as f64));
    kani::cover!(true, "end");
}
