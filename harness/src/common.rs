//! Shared harness-side vocabulary: the twelve integer sample formats seen as (bits, signedness,
//! raw value), and bit-level references for float rounding.  Nothing here calls dasp's
//! conversion code - these are the independent oracles.
use dasp_sample::{I24, I48, U24, U48};

pub trait IntFmt: Copy {
    const BITS: u32;
    const SIGNED: bool;
    /// raw representation as a mathematical integer
    fn raw(self) -> i128;
    /// any in-range value of the format (the documented validity predicate for the custom types)
    fn any_val() -> Self;
    fn from_raw(v: i128) -> Self;

    fn min_raw() -> i128 {
        if Self::SIGNED { -(1i128 << (Self::BITS - 1)) } else { 0 }
    }
    fn max_raw() -> i128 {
        if Self::SIGNED { (1i128 << (Self::BITS - 1)) - 1 } else { (1i128 << Self::BITS) - 1 }
    }
    /// signed amplitude: raw value minus half-range for the offset-unsigned formats
    fn amp(self) -> i128 {
        if Self::SIGNED { self.raw() } else { self.raw() - (1i128 << (Self::BITS - 1)) }
    }
    fn in_range(self) -> bool {
        Self::min_raw() <= self.raw() && self.raw() <= Self::max_raw()
    }
    fn from_amp(a: i128) -> Self {
        Self::from_raw(if Self::SIGNED { a } else { a + (1i128 << (Self::BITS - 1)) })
    }
}

macro_rules! int_fmt_prim {
    ($($T:ty, $bits:expr, $signed:expr);*) => {$(
        impl IntFmt for $T {
            const BITS: u32 = $bits;
            const SIGNED: bool = $signed;
            fn raw(self) -> i128 { self as i128 }
            fn any_val() -> Self { kani::any() }
            fn from_raw(v: i128) -> Self { v as $T }
        }
    )*};
}
int_fmt_prim!(i8, 8, true; i16, 16, true; i32, 32, true; i64, 64, true;
              u8, 8, false; u16, 16, false; u32, 32, false; u64, 64, false);

macro_rules! int_fmt_custom {
    ($($T:ident, $Rep:ty, $bits:expr, $signed:expr);*) => {$(
        impl IntFmt for $T {
            const BITS: u32 = $bits;
            const SIGNED: bool = $signed;
            fn raw(self) -> i128 { self.inner() as i128 }
            fn any_val() -> Self {
                let v: $Rep = kani::any();
                kani::assume(Self::min_raw() <= v as i128 && v as i128 <= Self::max_raw());
                // `new` is the checked constructor: the documented way to obtain a valid value
                match $T::new(v) {
                    Some(x) => x,
                    None => { kani::assume(false); unreachable!() }
                }
            }
            fn from_raw(v: i128) -> Self { $T::new_unchecked(v as $Rep) }
        }
    )*};
}
int_fmt_custom!(I24, i32, 24, true; U24, i32, 24, false; I48, i64, 48, true; U48, i64, 48, false);

/// Round-to-nearest-even of the integer `a` to `p` significant bits (integer-only reference for
/// int -> float conversion).  Returns the rounded integer (which may have more than p bits only
/// in the sense of trailing zeros).
pub fn rn_even(a: i128, p: u32) -> i128 {
    let neg = a < 0;
    let m: u128 = if neg { (-a) as u128 } else { a as u128 };
    if m == 0 {
        return 0;
    }
    let nbits = 128 - m.leading_zeros();
    if nbits <= p {
        return a;
    }
    let sh = nbits - p;
    let q = m >> sh;
    let rem = m & ((1u128 << sh) - 1);
    let half = 1u128 << (sh - 1);
    let q2 = if rem > half || (rem == half && (q & 1) == 1) { q + 1 } else { q };
    let v = (q2 << sh) as i128;
    if neg { -v } else { v }
}

/// trunc(s * 2^(bits-1)) for |s| <= 1, decoded from the bit pattern (f32)
pub fn ref_trunc_f32(s: f32, bits: u32) -> i128 {
    let b = s.to_bits();
    let neg = (b >> 31) != 0;
    let e = ((b >> 23) & 0xff) as i32;
    let m = (b & 0x7f_ffff) as u128;
    let (mant, exp) = if e == 0 { (m, -149) } else { (m | (1 << 23), e - 150) };
    let sh = exp + (bits as i32 - 1);
    let mag: u128 = if sh >= 0 { mant << (sh as u32) } else if -sh >= 64 { 0 } else { mant >> ((-sh) as u32) };
    if neg { -(mag as i128) } else { mag as i128 }
}

pub fn ref_trunc_f64(s: f64, bits: u32) -> i128 {
    let b = s.to_bits();
    let neg = (b >> 63) != 0;
    let e = ((b >> 52) & 0x7ff) as i32;
    let m = (b & 0xf_ffff_ffff_ffff) as u128;
    let (mant, exp) = if e == 0 { (m, -1074) } else { (m | (1 << 52), e - 1075) };
    let sh = exp + (bits as i32 - 1);
    let mag: u128 = if sh >= 0 { mant << (sh as u32) } else if -sh >= 64 { 0 } else { mant >> ((-sh) as u32) };
    if neg { -(mag as i128) } else { mag as i128 }
}

/// reference int -> f32 / f64: RN_p(amp) / 2^(bits-1), every operation exact
pub fn ref_to_f32<S: IntFmt>(s: S) -> f32 {
    (rn_even(s.amp(), 24) as f32) / ((1u128 << (S::BITS - 1)) as f32)
}
pub fn ref_to_f64<S: IntFmt>(s: S) -> f64 {
    (rn_even(s.amp(), 53) as f64) / ((1u128 << (S::BITS - 1)) as f64)
}
