//! C17 — oscillators and noise keep phase and amplitude in range at any rate.
//!
//! IMPORTANT engine limitation (measured, see DESIGN.md): Kani 0.68 / CBMC 6.11 evaluate the float
//! remainder operator `%` to 0.0 for every operand pair.  Nothing in this module asserts anything
//! about a value that has passed through `%` (the *advanced* phase); the stored phase is injected
//! through the cfg(rustaudio_dasp_verif) hook `Phase::verif_from_state` instead, and the phase
//! advance itself is decided by the MIR->SMT check (lib/phase_smt.py), not here.
use dasp_signal::{self as signal, Phase, Signal, Step};

static mut SIN_ARG: f64 = 0.0;
static mut SIN_RET: f64 = 0.0;
static mut SIN_CALLS: u32 = 0;
fn sin_marker(x: f64) -> f64 {
    unsafe {
        SIN_ARG = x;
        SIN_CALLS += 1;
        SIN_RET
    }
}

/// a step source that hands out harness-chosen steps and counts how often it is asked
#[derive(Clone)]
pub struct StepProbe {
    pub step: f64,
    pub calls: usize,
}
impl Step for StepProbe {
    fn step(&mut self) -> f64 {
        self.calls += 1;
        self.step
    }
}

fn any_step() -> f64 {
    let s: f64 = kani::any();
    kani::assume(s.is_finite() && s >= 0.0);
    s
}
fn any_phase() -> f64 {
    let p: f64 = kani::any();
    kani::assume(p >= 0.0 && p < 1.0);
    p
}

/// counts its calls through a raw pointer so the count survives being moved into an oscillator
pub struct CountingStep {
    pub step: f64,
    pub calls: *mut usize,
}
impl Step for CountingStep {
    fn step(&mut self) -> f64 {
        unsafe { *self.calls += 1 };
        self.step
    }
}

pub mod phase {
    use super::*;

    /// every oscillator starts at phase 0
    #[kani::proof]
    pub fn starts_at_zero() {
        let step = any_step();
        let mut ph = signal::phase(StepProbe { step, calls: 0 });
        assert!(ph.verif_next() == 0.0);
        assert!(ph.next_phase() == 0.0, "phase starts at 0");
        let mut c = signal::rate(44100.0).const_hz(440.0).phase();
        assert!(c.next() == 0.0);
        kani::cover!(true, "end");
    }

    /// from ANY stored phase and ANY step: the call yields the stored phase (not the advanced one)
    /// and consumes exactly one step
    #[kani::proof]
    pub fn yields_stored_phase_and_consumes_one_step() {
        let p = any_phase();
        let step = any_step();
        let mut calls = 0usize;
        let mut ph = Phase::verif_from_state(CountingStep { step, calls: &mut calls }, p);
        let y = ph.next_phase();
        assert!(y == p, "yields the phase stored before the call");
        assert!(calls == 1, "exactly one step per frame");
        let mut ph2 = Phase::verif_from_state(CountingStep { step, calls: &mut calls }, p);
        assert!(ph2.next() == p && calls == 2);
        let mut ph3 = Phase::verif_from_state(CountingStep { step, calls: &mut calls }, p);
        assert!(ph3.next_phase_wrapped_to(65536.0) == p && calls == 3);
        kani::cover!(p > 0.5, "late phase");
        kani::cover!(true, "end");
    }

    /// ConstHz: the step is hz / rate, at concrete (frequency, rate) pairs (a symbolic f64 division on
    /// both sides of the comparison did not finish in 3000 s, so no symbolic-pair harness exists)
    #[kani::proof]
    #[kani::unwind(8)]
    pub fn const_hz_step() {
        const PAIRS: [(f64, f64); 6] = [(440.0, 44100.0), (1.0, 3.0), (96000.0, 48000.0), (0.0, 1.0), (0.1, 0.3), (20000.5, 192000.0)];
        for i in 0..6 {
            let (hz, rate) = PAIRS[i];
            let mut c = signal::rate(rate).const_hz(hz);
            let s = c.step();
            assert!(s == hz / rate, "step == frequency / rate");
            assert!(c.step() == s && c.next() == s, "constant");
        }
        kani::cover!(true, "end");
    }

    /// Hz: exactly one frequency frame is pulled per step, in order, and it is the one used
    #[kani::proof]
    #[kani::unwind(6)]
    pub fn hz_pulls_one_frequency_frame_per_output() {
        let ks: [u16; 3] = kani::any();
        let hzs = [ks[0] as f64, ks[1] as f64, ks[2] as f64];
        let mut pulls = 0usize;
        let freq = signal::gen_mut(|| {
            let v = hzs[if pulls < 3 { pulls } else { 2 }];
            pulls += 1;
            v
        });
        let mut hz = signal::rate(48000.0).hz(freq);
        let s0 = hz.step();
        assert!(s0 == hzs[0] / 48000.0);
        let s1 = hz.next();
        assert!(s1 == hzs[1] / 48000.0);
        let mut ph = hz.phase();
        assert!(ph.next_phase() == 0.0);
        drop(ph);
        assert!(pulls == 3, "one frequency frame per output frame");
        kani::cover!(true, "end");
    }
}

pub mod hz_source {
    use super::*;

    /// a frequency signal that keeps yielding real frames while reporting itself exhausted from an
    /// arbitrary point on (what add_amp / mul_amp / zip_map of unequal-length inputs do)
    pub struct Freq<'a> {
        pub vals: [f64; 3],
        pub pulls: &'a mut usize,
        pub exhausted_from: usize,
    }
    impl<'a> Signal for Freq<'a> {
        type Frame = f64;
        fn next(&mut self) -> f64 {
            let v = self.vals[if *self.pulls < 3 { *self.pulls } else { 2 }];
            *self.pulls += 1;
            v
        }
        fn is_exhausted(&self) -> bool {
            *self.pulls >= self.exhausted_from
        }
    }

    /// Hz: one frequency frame per step and step == that frame / rate, whatever the frequency signal
    /// reports about its own exhaustion
    #[kani::proof]
    #[kani::unwind(6)]
    pub fn one_frame_per_step_exhausted_or_not() {
        let ks: [u16; 3] = kani::any();
        let vals = [ks[0] as f64, ks[1] as f64, ks[2] as f64];
        let exhausted_from: usize = kani::any();
        kani::assume(exhausted_from <= 4);
        let mut pulls = 0usize;
        let mut hz = signal::rate(48000.0).hz(Freq { vals, pulls: &mut pulls, exhausted_from });
        for n in 0..3 {
            let s = hz.step();
            assert!(s == vals[n] / 48000.0, "phase advances by frequency/rate per frame");
        }
        drop(hz);
        assert!(pulls == 3, "a variable-frequency oscillator consumes exactly one frequency frame per output frame");
        kani::cover!(exhausted_from == 0 && ks[0] != 0, "source reports exhausted from the start");
        kani::cover!(exhausted_from == 2 && ks[2] != 0, "source reports exhausted mid-way");
        kani::cover!(true, "end");
    }
}

pub mod wave {
    use super::*;

    /// saw == 1 - 2*phase and square == +1 / -1 by half-cycle, at EVERY stored phase in [0,1)
    #[kani::proof]
    pub fn saw_and_square_formula() {
        let p = any_phase();
        let step = any_step();
        let mut calls = 0usize;
        let mut saw = Phase::verif_from_state(CountingStep { step, calls: &mut calls }, p).saw();
        let s = saw.next();
        assert!(s == 1.0 - 2.0 * p, "saw == 1 - 2*phase");
        assert!(s > -1.0 && s <= 1.0, "within [-1, 1]");
        assert!(calls == 1);
        let mut sq = Phase::verif_from_state(CountingStep { step, calls: &mut calls }, p).square();
        let q = sq.next();
        assert!(q == if p < 0.5 { 1.0 } else { -1.0 }, "square: +1 on the first half-cycle, -1 on the second");
        assert!(calls == 2, "one step per output frame");
        kani::cover!(p >= 0.5, "second half-cycle");
        kani::cover!(p > 0.0 && p < 0.5, "first half-cycle, non-zero phase");
        kani::cover!(true, "end");
    }

    /// sine: sin is called exactly once, its result is the output, and (at concrete phases) its
    /// argument is 2*pi*phase
    #[kani::proof]
    #[kani::unwind(12)]
    #[kani::stub(dasp_signal::ops::f64::sin, super::sin_marker)]
    pub fn sine_structure() {
        let v: f64 = kani::any();
        kani::assume(v >= -1.0 && v <= 1.0);
        let step = any_step();
        let p = any_phase();
        unsafe {
            SIN_RET = v;
            SIN_CALLS = 0;
        }
        let mut s = Phase::verif_from_state(StepProbe { step, calls: 0 }, p).sine();
        let y = s.next();
        assert!(unsafe { SIN_CALLS } == 1);
        assert!(y == v && y >= -1.0 && y <= 1.0, "output is sin(..) itself, within [-1, 1]");
        let arg = unsafe { SIN_ARG };
        assert!(arg >= 0.0 && arg <= core::f64::consts::PI * 2.0, "argument within one turn");
        const PS: [f64; 8] = [0.0, 0.1, 0.125, 0.25, 1.0 / 3.0, 0.5, 0.75, 0.999];
        for i in 0..8 {
            let mut s = Phase::verif_from_state(StepProbe { step, calls: 0 }, PS[i]).sine();
            let _ = s.next();
            assert!(unsafe { SIN_ARG } == core::f64::consts::PI * 2.0 * PS[i], "sin evaluated at 2*pi*phase");
        }
        kani::cover!(true, "end");
    }

    /// sine == sin(2*pi*phase) at every phase (two 53-bit multipliers: thorough tier)
    #[cfg(feature = "thorough")]
    #[kani::proof]
    #[kani::stub(dasp_signal::ops::f64::sin, super::sin_marker)]
    pub fn sine_argument_any_phase() {
        let p = any_phase();
        unsafe {
            SIN_RET = 0.25;
        }
        let mut sine = Phase::verif_from_state(StepProbe { step: 0.0, calls: 0 }, p).sine();
        let y = sine.next();
        assert!(y == 0.25);
        assert!(unsafe { SIN_ARG } == core::f64::consts::PI * 2.0 * p, "sine evaluates sin at 2*pi*phase");
        kani::cover!(true, "end");
    }

    /// without a stub: CBMC's own model of sin (any value in [-1,1]) bounds the sine oscillator
    #[kani::proof]
    pub fn sine_range_unstubbed() {
        let p = any_phase();
        let mut s = Phase::verif_from_state(StepProbe { step: any_step(), calls: 0 }, p).sine();
        let y = s.next();
        assert!(y >= -1.0 && y <= 1.0);
        kani::cover!(true, "end");
    }
}

pub mod noise {
    use super::*;

    /// for EVERY u64 seed (including u64::MAX): two frames without a panic, each in (-1, 1]
    #[kani::proof]
    pub fn range_and_no_panic_any_seed() {
        let seed: u64 = kani::any();
        let mut n = signal::noise(seed);
        let y0 = n.next();
        assert!(y0 > -1.0 && y0 <= 1.0, "within [-1, 1]");
        let y1 = n.next_sample();
        assert!(y1 > -1.0 && y1 <= 1.0, "within [-1, 1]");
        kani::cover!(seed == u64::MAX, "seed at the top of the range");
        kani::cover!(true, "end");
    }

    /// pure function of seed + frame index: a clone reproduces the stream, a restart reproduces it,
    /// frame i of seed s is frame 0 of seed s+i.  Decided at concrete seeds (proving two symbolic
    /// chains of 64-bit multipliers equivalent is out of reach for the SAT back end: > 900 s).
    #[kani::proof]
    #[kani::unwind(10)]
    pub fn clone_restart_shift_at_concrete_seeds() {
        const SEEDS: [u64; 6] = [0, 1, 977, 0x0123_4567_89ab_cdef, u64::MAX - 1, u64::MAX];
        for i in 0..6 {
            let seed = SEEDS[i];
            let mut n = signal::noise(seed);
            let mut c = n.clone();
            let y0 = n.next();
            assert!(c.next_sample() == y0, "a clone reproduces the stream");
            let mut c1 = n.clone();
            let y1 = n.next_sample();
            assert!(c1.next() == y1, "a clone taken mid-stream continues identically");
            let mut restart = signal::noise(seed);
            assert!(restart.next() == y0 && restart.next() == y1, "a restart reproduces the stream");
            let mut shifted = signal::noise(seed.wrapping_add(1));
            assert!(shifted.next() == y1, "frame i of seed s == frame 0 of seed s+i");
        }
        kani::cover!(true, "end");
    }

    fn ref_value(seed: u64) -> f64 {
        let x = (seed << 13) ^ seed;
        let bits = x.wrapping_mul(x.wrapping_mul(x).wrapping_mul(15_731).wrapping_add(789_221)).wrapping_add(1_376_312_589) & 0x7fff_ffff;
        1.0 - (bits as f64) / 1_073_741_824.0
    }

    /// the hash itself, at concrete seeds (symbolic 64-bit multiplier equivalence is out of reach)
    #[kani::proof]
    #[kani::unwind(10)]
    pub fn hash_value_at_concrete_seeds() {
        const SEEDS: [u64; 6] = [0, 1, 2, 12345, 0xdead_beef_cafe_f00d, u64::MAX - 1];
        for i in 0..6 {
            let mut n = signal::noise(SEEDS[i]);
            assert!(n.next() == ref_value(SEEDS[i]));
            assert!(n.next() == ref_value(SEEDS[i].wrapping_add(1)));
        }
        kani::cover!(true, "end");
    }
}

pub mod simplex {
    use super::*;

    /// |out| <= 1 at concrete phases spread over the whole wrap range [0, 65536) - including both
    /// sides of 2^15, 2^8 and the top of the range (the symbolic amplitude bound is out of reach:
    /// nine dependent symbolic f64 products; concrete phases are folded by the solver)
    #[kani::proof]
    #[kani::unwind(16)]
    pub fn amplitude_at_concrete_phases() {
        const PS: [f64; 12] = [0.0, 0.25, 0.5, 0.75, 127.9, 255.5, 256.25, 32767.5, 32768.5, 40000.3, 65535.1, 65535.9];
        let mut i = 0;
        while i < 12 {
            let mut s = Phase::verif_from_state(StepProbe { step: 0.0, calls: 0 }, PS[i]).noise_simplex();
            let y = s.next_sample();
            assert!(y >= -1.0 && y <= 1.0, "simplex noise within [-1, 1]");
            i += 1;
        }
        kani::cover!(true, "end");
    }

    /// a symbolic amplitude bound for EVERY phase in [0, 65536): |out| <= 2.  The property's own bound
    /// |out| <= 1 (true maximum ~0.99984) did not finish in 3000 s; 2 is decided in ~30 s and already
    /// refutes any gross error in the corner / distance arithmetic at any phase.
    #[kani::proof]
    pub fn amplitude_bound_2_any_phase() {
        let p: f64 = kani::any();
        kani::assume(p >= 0.0 && p < 65536.0);
        let mut s = Phase::verif_from_state(StepProbe { step: 0.0, calls: 0 }, p).noise_simplex();
        let y = s.next_sample();
        assert!(y >= -2.0 && y <= 2.0, "|out| <= 2");
        kani::cover!(true, "end");
    }

    /// from any stored phase in [0, 65536): table indices stay in bounds (Kani's own bounds checks),
    /// the result is finite; 0 at integer coordinates. |out| <= 1 is NOT decided here.
    #[kani::proof]
    pub fn finite_and_in_bounds() {
        let p: f64 = kani::any();
        kani::assume(p >= 0.0 && p < 65536.0);
        let mut s = Phase::verif_from_state(StepProbe { step: any_step(), calls: 0 }, p).noise_simplex();
        let y = s.next_sample();
        assert!(!y.is_nan() && y.is_finite());
        if p == 7.0 {
            assert!(y == 0.0, "0 at integer coordinates");
        }
        kani::cover!(p > 255.5, "beyond one period of the permutation table");
        kani::cover!(true, "end");
    }
}
