//! C03 — sample and frame amplitude arithmetic obeys its identities, channel by channel.
use crate::common::{ref_to_f32, ref_to_f64, ref_trunc_f32, ref_trunc_f64, rn_even, IntFmt};
use dasp_frame::Frame;
use dasp_sample::{Sample, I24, I48, U24, U48};

// ------------------------------------------------------------------------------------------
// samples
// ------------------------------------------------------------------------------------------
macro_rules! sample_int {
    ($m:ident, $T:ty, $G:ty, $F:ty, $P:expr, $ref_to:ident, $ref_trunc:ident) => {
        sample_int!($m, $T, $G, $F, $P, $ref_to, $ref_trunc, kani::any());
    };
    ($m:ident, $T:ty, $G:ty, $F:ty, $P:expr, $ref_to:ident, $ref_trunc:ident, $anygain:expr) => {
        pub mod $m {
            use super::*;
            const B: u32 = <$T as IntFmt>::BITS;
            const GB: u32 = <$G as IntFmt>::BITS;

            #[kani::proof]
            pub fn identities() {
                let s: $T = <$T as IntFmt>::any_val();
                // the associated types are the documented companions
                let sg: $G = s.to_signed_sample();
                assert!(sg.amp() == s.amp() << (GB - B), "signed companion holds the re-centred amplitude");
                let sf: $F = s.to_float_sample();
                assert!(sf.to_bits() == $ref_to(s).to_bits(), "float companion is the normalised amplitude");
                let zero: $G = <$G as Sample>::EQUILIBRIUM;
                assert!(zero.raw() == 0);
                assert!(Sample::add_amp(s, zero).raw() == s.raw(), "offsetting by zero returns the sample unchanged");
                assert!(Sample::mul_amp(s, 0.0).raw() == <$T as Sample>::EQUILIBRIUM.raw(), "scaling by 0.0 returns equilibrium");
                assert!(Sample::mul_amp(s, -0.0).raw() == <$T as Sample>::EQUILIBRIUM.raw());
                assert!(<$T as Sample>::EQUILIBRIUM.amp() == 0);
                assert!(<$T as Sample>::IDENTITY == 1.0);
                let one = Sample::mul_amp(s, 1.0);
                assert!(one.in_range());
                if B <= $P {
                    assert!(one.raw() == s.raw(), "scaling by 1.0 is exact when the format fits the mantissa");
                } else {
                    let d = one.amp() - s.amp();
                    let tol = 1i128 << (B - $P);
                    assert!(-tol <= d && d <= tol, "scaling by 1.0 within float precision");
                }
                kani::cover!(B <= $P || one.raw() != s.raw(), "1.0 scaling that rounds");
                kani::cover!(s.amp() < 0, "negative amplitude");
                kani::cover!(true, "end");
            }

            /// offset == native addition on the signed conversion, converted back (so unsigned
            /// formats are re-centred, not treated as raw integers)
            #[kani::proof]
            pub fn add_amp_general() {
                let s: $T = <$T as IntFmt>::any_val();
                let a: $G = <$G as IntFmt>::any_val();
                let sum = (s.amp() << (GB - B)) + a.amp();
                kani::assume(<$G as IntFmt>::min_raw() <= sum && sum <= <$G as IntFmt>::max_raw());
                let r = Sample::add_amp(s, a);
                assert!(r.in_range());
                assert!(r.amp() == sum >> (GB - B), "amp(result) == amp(s) + offset");
                kani::cover!(a.amp() < 0 && s.amp() > 0, "negative offset");
                kani::cover!(a.amp() > 0, "positive offset");
                kani::cover!(true, "end");
            }

            /// scale == native multiplication on the normalised-float conversion, converted back
            #[kani::proof]
            pub fn mul_amp_general() {
                let s: $T = <$T as IntFmt>::any_val();
                let g: $F = $anygain;
                kani::assume(g.is_finite());
                // the float companion value is pinned to the reference by `identities` (and C02);
                // using it here keeps the oracle's product on the same operands as the implementation's
                let p: $F = s.to_float_sample() * g;
                kani::assume(p >= -1.0 && p < 1.0); // mathematical result stays in range
                let r = Sample::mul_amp(s, g);
                assert!(r.in_range());
                assert!(r.amp() == $ref_trunc(p, B), "amp(result) == trunc(float(s) * gain * 2^(bits-1))");
                kani::cover!(g < 0.0 && s.amp() != 0, "negative gain");
                kani::cover!(g > 0.0 && g < 1.0 && s.amp() != 0, "attenuation");
                kani::cover!(true, "end");
            }
        }
    };
}

sample_int!(s_i8, i8, i8, f32, 24, ref_to_f32, ref_trunc_f32);
sample_int!(s_i16, i16, i16, f32, 24, ref_to_f32, ref_trunc_f32);
sample_int!(s_i24, I24, I24, f32, 24, ref_to_f32, ref_trunc_f32);
sample_int!(s_i32, i32, i32, f32, 24, ref_to_f32, ref_trunc_f32);
sample_int!(s_i48, I48, I48, f64, 53, ref_to_f64, ref_trunc_f64, kani::any::<f32>() as f64);
sample_int!(s_i64, i64, i64, f64, 53, ref_to_f64, ref_trunc_f64);
sample_int!(s_u8, u8, i8, f32, 24, ref_to_f32, ref_trunc_f32);
sample_int!(s_u16, u16, i16, f32, 24, ref_to_f32, ref_trunc_f32);
sample_int!(s_u24, U24, i32, f32, 24, ref_to_f32, ref_trunc_f32);
sample_int!(s_u32, u32, i32, f32, 24, ref_to_f32, ref_trunc_f32);
sample_int!(s_u48, U48, i64, f64, 53, ref_to_f64, ref_trunc_f64, kani::any::<f32>() as f64);
sample_int!(s_u64, u64, i64, f64, 53, ref_to_f64, ref_trunc_f64, kani::any::<f32>() as f64);

macro_rules! sample_float {
    ($m:ident, $T:ty) => {
        pub mod $m {
            use super::*;
            #[kani::proof]
            pub fn identities() {
                let s: $T = kani::any();
                kani::assume(s.is_finite());
                assert!(s.to_signed_sample().to_bits() == s.to_bits());
                assert!(s.to_float_sample().to_bits() == s.to_bits());
                assert!(Sample::add_amp(s, 0.0) == s, "offsetting by zero returns the sample unchanged");
                assert!(Sample::mul_amp(s, 0.0) == <$T as Sample>::EQUILIBRIUM, "scaling by 0.0 returns equilibrium");
                assert!(<$T as Sample>::EQUILIBRIUM == 0.0);
                assert!(Sample::mul_amp(s, 1.0).to_bits() == s.to_bits(), "scaling by 1.0 returns the same sample");
                let a: $T = kani::any();
                kani::assume(a.is_finite());
                let r = Sample::add_amp(s, a);
                assert!(r.to_bits() == (s + a).to_bits() || (r.is_nan() && (s + a).is_nan()), "native addition");
                kani::cover!(true, "end");
            }
            #[kani::proof]
            pub fn mul_amp_general() {
                let s: $T = kani::any();
                let g: $T = kani::any();
                kani::assume(s.is_finite() && g.is_finite());
                let r = Sample::mul_amp(s, g);
                let e = s * g;
                assert!(r.to_bits() == e.to_bits() || (r.is_nan() && e.is_nan()), "native multiplication");
                kani::cover!(true, "end");
            }
        }
    };
}
sample_float!(s_f32, f32);
sample_float!(s_f64, f64);

/// Gains that differ from 1.0 by less than an f32 ulp (1 + k*2^-40): for the five formats whose float
/// companion is f64 the product must still be taken (f64 value: bitwise native product; 64-bit
/// integer: the bit-level truncation reference).  The gain has only a handful of set mantissa bits,
/// which keeps the symbolic product cheap enough for the quick tier.
pub mod near_unity_gain {
    use super::*;
    fn gain() -> f64 {
        let k: i8 = kani::any();
        kani::assume(k != 0 && k >= -16 && k <= 16);
        1.0 + (k as f64) * 9.094947017729282e-13 // 2^-40
    }
    /// f64 and i64 at concrete samples (the symbolic versions need two 53-bit multipliers and did not
    /// finish in 900 s); the gain is still symbolic on the 1 + k*2^-40 grid for the U48 harness below
    #[kani::proof]
    #[kani::unwind(8)]
    pub fn f64_and_i64_concrete_samples() {
        const GS: [f64; 4] = [1.0 - 9.313225746154785e-10, 1.0 + 9.313225746154785e-10, 1.0 - 2.0e-8, 1.0 + 2.0e-9]; // 1 -+ 2^-30 ...
        const FS: [f64; 3] = [0.75, -0.3333333333333333, 123456.789];
        const IS: [i64; 3] = [1i64 << 62, -(1i64 << 61) + 12345, 0x1234_5678_9abc_def0];
        let mut gi = 0;
        while gi < 4 {
            let g = GS[gi];
            assert!((g as f32) == 1.0f32 && g != 1.0, "the gain rounds to 1.0 in f32 but is not 1.0");
            let mut k = 0;
            while k < 3 {
                let r = Sample::mul_amp(FS[k], g);
                assert!(r.to_bits() == (FS[k] * g).to_bits() && r != FS[k], "f64: native multiplication, not skipped");
                let s = IS[k];
                let p: f64 = s.to_float_sample() * g;
                let ri = Sample::mul_amp(s, g);
                assert!(ri as i128 == ref_trunc_f64(p, 64) && ri != s, "i64: scaled through the f64 companion, not skipped");
                let fr = [s, s];
                assert!(fr.scale_amp(g)[1] == ri && Frame::mul_amp(fr, [g, 1.0])[0] == ri);
                k += 1;
            }
            gi += 1;
        }
        kani::cover!(true, "end");
    }
    #[kani::proof]
    pub fn u48_sample() {
        let s: U48 = <U48 as IntFmt>::any_val();
        let g = gain();
        let p: f64 = s.to_float_sample() * g;
        kani::assume(p >= -1.0 && p < 1.0);
        let r = Sample::mul_amp(s, g);
        assert!(r.amp() == ref_trunc_f64(p, 48), "scaled through the f64 companion, not skipped");
        kani::cover!(r.raw() != s.raw(), "the gain moved the sample");
        kani::cover!(true, "end");
    }
}

// ------------------------------------------------------------------------------------------
// frames: [S; N]
// ------------------------------------------------------------------------------------------

/// Iterator over the first `len` items of an array that counts how often it is polled.
pub struct CountIter<T: Copy, const M: usize> {
    pub items: [T; M],
    pub len: usize,
    pub pos: usize,
    pub polls: usize,
}
impl<T: Copy, const M: usize> Iterator for CountIter<T, M> {
    type Item = T;
    fn next(&mut self) -> Option<T> {
        self.polls += 1;
        if self.pos < self.len && self.pos < M {
            let v = self.items[self.pos];
            self.pos += 1;
            Some(v)
        } else {
            None
        }
    }
}

/// Integer-format frames. `$T`: sample type, `$G`: its Signed companion, `$F`: its Float companion.
macro_rules! frame_int {
    ($m:ident, $T:ty, $G:ty, $F:ty, $n:expr, $unwind:expr) => {
        pub mod $m {
            use super::*;
            const N: usize = $n;
            type Fr = [$T; N];

            fn any_frame() -> Fr {
                let mut f = [<$T as Sample>::EQUILIBRIUM; N];
                for i in 0..N {
                    f[i] = <$T as IntFmt>::any_val();
                }
                f
            }
            fn any_c() -> usize {
                let c: usize = kani::any();
                kani::assume(c < N);
                c
            }

            #[kani::proof]
            #[kani::unwind($unwind)]
            pub fn map_zip_from_fn() {
                let a = any_frame();
                let b = any_frame();
                let c = any_c();
                // map: called once per channel, in channel order, result channel c = f(a[c])
                let mut k = 0usize;
                let r: [i128; 0] = [];
                let m: Fr = a.map(|s| {
                    assert!(k < N && s.raw() == a[k].raw(), "map visits channels in order");
                    k += 1;
                    <$T as IntFmt>::from_raw(<$T as IntFmt>::max_raw() - (s.raw() - <$T as IntFmt>::min_raw()))
                });
                assert!(k == N);
                assert!(m[c].raw() == <$T as IntFmt>::max_raw() - (a[c].raw() - <$T as IntFmt>::min_raw()));
                // map into a different sample type
                let mf: [$F; N] = a.map(|s| s.to_sample::<$F>());
                assert!(mf[c].to_bits() == a[c].to_sample::<$F>().to_bits());
                // zip_map
                let mut k = 0usize;
                let z: Fr = a.zip_map(b, |x, y| {
                    assert!(k < N && x.raw() == a[k].raw() && y.raw() == b[k].raw(), "zip_map visits channels in order");
                    k += 1;
                    if x.raw() <= y.raw() { x } else { y }
                });
                assert!(k == N);
                assert!(z[c].raw() == if a[c].raw() <= b[c].raw() { a[c].raw() } else { b[c].raw() });
                // from_fn
                let mut k = 0usize;
                let ff: Fr = Frame::from_fn(|i| {
                    assert!(i == k && i < N, "from_fn passes channel indices in order");
                    k += 1;
                    a[N - 1 - i]
                });
                assert!(k == N);
                assert!(ff[c].raw() == a[N - 1 - c].raw());
                // constants
                assert!(<Fr as Frame>::CHANNELS == N);
                assert!(<Fr as Frame>::EQUILIBRIUM[c].raw() == <$T as Sample>::EQUILIBRIUM.raw());
                kani::cover!(true, "end");
            }

            #[kani::proof]
            #[kani::unwind($unwind)]
            pub fn amp_ops() {
                let a = any_frame();
                let c = any_c();
                // offset_amp: same signed offset on every channel
                let k: $G = <$G as IntFmt>::any_val();
                const SH: u32 = <$G as IntFmt>::BITS - <$T as IntFmt>::BITS;
                for i in 0..N {
                    let sum = (a[i].amp() << SH) + k.amp();
                    kani::assume(<$G as IntFmt>::min_raw() <= sum && sum <= <$G as IntFmt>::max_raw());
                }
                let r = a.offset_amp(k);
                assert!(r[c].raw() == Sample::add_amp(a[c], k).raw(), "offset_amp is per-channel add_amp");
                // add_amp: per-channel offsets
                let mut o = [<$G as Sample>::EQUILIBRIUM; N];
                for i in 0..N {
                    o[i] = <$G as IntFmt>::any_val();
                    let sum = (a[i].amp() << SH) + o[i].amp();
                    kani::assume(<$G as IntFmt>::min_raw() <= sum && sum <= <$G as IntFmt>::max_raw());
                }
                let r = Frame::add_amp(a, o);
                assert!(r[c].raw() == Sample::add_amp(a[c], o[c]).raw(), "add_amp is per-channel add_amp");
                // signed / float conversion
                let sg: [$G; N] = a.to_signed_frame();
                assert!(sg[c].raw() == a[c].to_signed_sample().raw());
                let fl: [$F; N] = a.to_float_frame();
                assert!(fl[c].to_bits() == a[c].to_float_sample().to_bits());
                kani::cover!(true, "end");
            }

            /// gains are chosen symbolically from a small set of constants for wide frames (a
            /// symbolic x symbolic float product per channel is out of reach at N = 32)
            #[kani::proof]
            #[kani::unwind($unwind)]
            pub fn scale_ops() {
                let a = any_frame();
                let c = any_c();
                let pick = |sel: u8| -> $F {
                    match sel % 6 { 0 => 0.0, 1 => 1.0, 2 => 0.5, 3 => -0.5, 4 => 0.25, _ => -1.0 }
                };
                let g = pick(kani::any());
                if g == -1.0 {
                    for i in 0..N {
                        kani::assume(a[i].amp() != <$T as IntFmt>::min_raw() - if <$T as IntFmt>::SIGNED { 0 } else { 1i128 << (<$T as IntFmt>::BITS - 1) });
                    }
                }
                let r = a.scale_amp(g);
                assert!(r[c].raw() == Sample::mul_amp(a[c], g).raw(), "scale_amp is per-channel mul_amp");
                let mut gs = [0.0 as $F; N];
                for i in 0..N {
                    gs[i] = pick(kani::any());
                    if gs[i] == -1.0 {
                        kani::assume(a[i].amp() > -(1i128 << (<$T as IntFmt>::BITS - 1)));
                    }
                }
                let r = Frame::mul_amp(a, gs);
                assert!(r[c].raw() == Sample::mul_amp(a[c], gs[c]).raw(), "mul_amp is per-channel mul_amp");
                kani::cover!(gs[c] == 0.5, "half gain on the observed channel");
                kani::cover!(true, "end");
            }

            #[kani::proof]
            #[kani::unwind($unwind)]
            pub fn from_samples() {
                // an iterator holding m <= N+1 samples: Some iff m >= N, consumes exactly min(m, N) items
                let mut items = [<$T as Sample>::EQUILIBRIUM; $n + 1];
                for i in 0..N + 1 {
                    items[i] = <$T as IntFmt>::any_val();
                }
                let m: usize = kani::any();
                kani::assume(m <= N + 1);
                let mut it = CountIter { items, len: m, pos: 0, polls: 0 };
                let r: Option<Fr> = Frame::from_samples(&mut it);
                assert!(r.is_some() == (m >= N), "Some iff the iterator holds a complete frame");
                match r {
                    Some(f) => {
                        let c = any_c();
                        assert!(f[c].raw() == items[c].raw(), "samples land in channel order");
                        assert!(it.pos == N && it.polls == N, "exactly N items consumed");
                    }
                    None => {
                        assert!(it.pos == m && it.polls == m + 1, "stops at the first None");
                    }
                }
                kani::cover!(m == N + 1, "surplus sample stays in the iterator");
                kani::cover!(m < N, "short iterator");
                kani::cover!(true, "end");
            }

            #[kani::proof]
            #[kani::unwind($unwind)]
            pub fn channel_access() {
                let mut a = any_frame();
                let orig = a;
                let i: usize = kani::any();
                assert!(a.channel(i).is_some() == (i < N), "channel(i) is Some iff i < N");
                if i < N {
                    assert!(a.channel(i).unwrap().raw() == orig[i].raw());
                    let x = <$T as IntFmt>::any_val();
                    *a.channel_mut(i).unwrap() = x;
                    assert!(a[i].raw() == x.raw());
                    assert!(unsafe { a.channel_unchecked(i) }.raw() == x.raw());
                    a[i] = orig[i];
                } else {
                    assert!(a.channel_mut(i).is_none());
                }
                // channels(): exactly N items in channel order, len() counts down
                let mut ch = a.channels();
                for k in 0..N {
                    assert!(ch.len() == N - k);
                    let v = ch.next();
                    assert!(v.is_some() && v.unwrap().raw() == orig[k].raw());
                }
                assert!(ch.len() == 0 && ch.next().is_none());
                // channels_ref()
                let mut k = 0;
                {
                    let mut cr = a.channels_ref();
                    assert!(cr.len() == N);
                    for v in cr {
                        assert!(k < N && v.raw() == orig[k].raw());
                        k += 1;
                    }
                }
                assert!(k == N);
                // channels_mut(): write through, in order
                let mut k = 0;
                let y = <$T as IntFmt>::any_val();
                for v in a.channels_mut() {
                    assert!(k < N && v.raw() == orig[k].raw());
                    *v = y;
                    k += 1;
                }
                assert!(k == N);
                let c = any_c();
                assert!(a[c].raw() == y.raw());
                kani::cover!(i >= N, "out-of-range channel index");
                kani::cover!(true, "end");
            }
        }
    };
}

frame_int!(frame_u8_n1, u8, i8, f32, 1, 4);
frame_int!(frame_u8_n2, u8, i8, f32, 2, 5);
frame_int!(frame_u8_n3, u8, i8, f32, 3, 6);
frame_int!(frame_u8_n4, u8, i8, f32, 4, 7);
#[cfg(feature = "thorough")]
frame_int!(frame_u8_n5, u8, i8, f32, 5, 8);
#[cfg(feature = "thorough")]
frame_int!(frame_u8_n6, u8, i8, f32, 6, 9);
#[cfg(feature = "thorough")]
frame_int!(frame_u8_n7, u8, i8, f32, 7, 10);
frame_int!(frame_u8_n8, u8, i8, f32, 8, 11);
#[cfg(feature = "thorough")]
frame_int!(frame_u8_n9, u8, i8, f32, 9, 12);
#[cfg(feature = "thorough")]
frame_int!(frame_u8_n10, u8, i8, f32, 10, 13);
#[cfg(feature = "thorough")]
frame_int!(frame_u8_n11, u8, i8, f32, 11, 14);
#[cfg(feature = "thorough")]
frame_int!(frame_u8_n12, u8, i8, f32, 12, 15);
#[cfg(feature = "thorough")]
frame_int!(frame_u8_n13, u8, i8, f32, 13, 16);
#[cfg(feature = "thorough")]
frame_int!(frame_u8_n14, u8, i8, f32, 14, 17);
#[cfg(feature = "thorough")]
frame_int!(frame_u8_n15, u8, i8, f32, 15, 18);
#[cfg(feature = "thorough")]
frame_int!(frame_u8_n16, u8, i8, f32, 16, 19);
#[cfg(feature = "thorough")]
frame_int!(frame_u8_n17, u8, i8, f32, 17, 20);
#[cfg(feature = "thorough")]
frame_int!(frame_u8_n18, u8, i8, f32, 18, 21);
#[cfg(feature = "thorough")]
frame_int!(frame_u8_n19, u8, i8, f32, 19, 22);
#[cfg(feature = "thorough")]
frame_int!(frame_u8_n20, u8, i8, f32, 20, 23);
#[cfg(feature = "thorough")]
frame_int!(frame_u8_n21, u8, i8, f32, 21, 24);
#[cfg(feature = "thorough")]
frame_int!(frame_u8_n22, u8, i8, f32, 22, 25);
#[cfg(feature = "thorough")]
frame_int!(frame_u8_n23, u8, i8, f32, 23, 26);
#[cfg(feature = "thorough")]
frame_int!(frame_u8_n24, u8, i8, f32, 24, 27);
#[cfg(feature = "thorough")]
frame_int!(frame_u8_n25, u8, i8, f32, 25, 28);
#[cfg(feature = "thorough")]
frame_int!(frame_u8_n26, u8, i8, f32, 26, 29);
#[cfg(feature = "thorough")]
frame_int!(frame_u8_n27, u8, i8, f32, 27, 30);
#[cfg(feature = "thorough")]
frame_int!(frame_u8_n28, u8, i8, f32, 28, 31);
#[cfg(feature = "thorough")]
frame_int!(frame_u8_n29, u8, i8, f32, 29, 32);
#[cfg(feature = "thorough")]
frame_int!(frame_u8_n30, u8, i8, f32, 30, 33);
frame_int!(frame_u8_n31, u8, i8, f32, 31, 34);
frame_int!(frame_u8_n32, u8, i8, f32, 32, 35);

/// the `channels()` iterator through the provided Iterator methods a caller may use on it
/// (nth / skip / step_by / size_hint / count / last) - from a partially consumed state too
pub mod channels_iter {
    use super::*;
    #[kani::proof]
    #[kani::unwind(9)]
    pub fn channels_iterator_adaptors() {
        let a: [i16; 6] = kani::any();
        let k: usize = kani::any();
        kani::assume(k <= 6);
        let mut it = a.channels();
        for _ in 0..k {
            it.next();
        }
        // size_hint / len agree with what is left
        assert!(it.len() == 6 - k);
        let (lo, hi) = it.size_hint();
        assert!(lo <= 6 - k && (hi.is_none() || hi.unwrap() >= 6 - k), "size_hint brackets the remaining channels");
        // nth is relative to the current position
        let n: usize = kani::any();
        kani::assume(n <= 7);
        let mut it2 = it.clone();
        let got = it2.nth(n);
        assert!(got == if k + n < 6 { Some(a[k + n]) } else { None }, "nth(n) yields the n-th REMAINING channel");
        if k + n < 6 {
            assert!(it2.next() == if k + n + 1 < 6 { Some(a[k + n + 1]) } else { None });
        }
        // skip / step_by / count / last
        let mut sk = it.clone().skip(1);
        assert!(sk.next() == if k + 1 < 6 { Some(a[k + 1]) } else { None });
        let mut st = a.channels().step_by(2);
        assert!(st.next() == Some(a[0]) && st.next() == Some(a[2]) && st.next() == Some(a[4]) && st.next().is_none());
        assert!(it.clone().count() == 6 - k);
        assert!(it.clone().last() == if k < 6 { Some(a[5]) } else { None });
        // a bare sample's channels(): exactly one item, then None for good, also through nth
        let s: i16 = kani::any();
        let mut ms = Frame::channels(s);
        assert!(ms.next() == Some(s));
        assert!(ms.nth(0).is_none() && ms.next().is_none());
        kani::cover!(k == 2 && n == 1, "nth after partial consumption");
        kani::cover!(true, "end");
    }
}

pub mod channels_ref_iter {
    use super::*;
    #[kani::proof]
    #[kani::unwind(10)]
    pub fn channels_ref_mut_double_ended() {
        let mut a: [i16; 4] = kani::any();
        let orig = a;
        {
            let mut r = a.channels_ref();
            assert!(r.len() == 4 && r.size_hint() == (4, Some(4)));
            assert!(r.next() == Some(&orig[0]));
            assert!(r.next_back() == Some(&orig[3]), "next_back yields the last channel");
            assert!(r.len() == 2);
            assert!(r.next_back() == Some(&orig[2]) && r.next() == Some(&orig[1]));
            assert!(r.next().is_none() && r.next_back().is_none());
        }
        {
            let mut m = a.channels_mut();
            assert!(m.len() == 4);
            *m.next_back().unwrap() = 7;
            *m.next().unwrap() = 9;
            assert!(m.len() == 2 && m.size_hint() == (2, Some(2)));
        }
        assert!(a == [9, orig[1], orig[2], 7], "writes through channels_mut land on the first / last channel");
        let s: i16 = kani::any();
        assert!(Frame::channels_ref(&s).next_back() == Some(&s) && Frame::channels_ref(&s).len() == 1);
        kani::cover!(true, "end");
    }
}

// every integer format at N = 2 (u8 is above)
frame_int!(frame_i8_n2, i8, i8, f32, 2, 5);
frame_int!(frame_i16_n2, i16, i16, f32, 2, 5);
frame_int!(frame_i24_n2, I24, I24, f32, 2, 5);
frame_int!(frame_i32_n2, i32, i32, f32, 2, 5);
frame_int!(frame_i48_n2, I48, I48, f64, 2, 5);
frame_int!(frame_i64_n2, i64, i64, f64, 2, 5);
frame_int!(frame_u16_n2, u16, i16, f32, 2, 5);
frame_int!(frame_u24_n2, U24, i32, f32, 2, 5);
frame_int!(frame_u32_n2, u32, i32, f32, 2, 5);
frame_int!(frame_u48_n2, U48, i64, f64, 2, 5);
frame_int!(frame_u64_n2, u64, i64, f64, 2, 5);

/// float frames at N = 2: per-channel native arithmetic
macro_rules! frame_float {
    ($m:ident, $T:ty) => {
        pub mod $m {
            use super::*;
            const N: usize = 2;
            #[kani::proof]
            #[kani::unwind(5)]
            pub fn ops() {
                let a: [$T; N] = [kani::any(), kani::any()];
                let b: [$T; N] = [kani::any(), kani::any()];
                kani::assume(a[0].is_finite() && a[1].is_finite() && b[0].is_finite() && b[1].is_finite());
                let c: usize = kani::any();
                kani::assume(c < N);
                let same = |x: $T, y: $T| x.to_bits() == y.to_bits() || (x.is_nan() && y.is_nan());
                let k: $T = kani::any();
                kani::assume(k.is_finite());
                assert!(same(a.offset_amp(k)[c], a[c] + k));
                assert!(same(Frame::add_amp(a, b)[c], a[c] + b[c]));
                let g: $T = match kani::any::<u8>() % 4 { 0 => 0.0, 1 => 1.0, 2 => 0.5, _ => -0.25 };
                assert!(same(a.scale_amp(g)[c], a[c] * g));
                let gs: [$T; N] = [g, if g == 0.5 { 2.0 } else { g }];
                assert!(same(Frame::mul_amp(a, gs)[c], a[c] * gs[c]));
                assert!(a.to_signed_frame()[c].to_bits() == a[c].to_bits());
                assert!(a.to_float_frame()[c].to_bits() == a[c].to_bits());
                assert!(<[$T; N] as Frame>::EQUILIBRIUM[c] == 0.0 && <[$T; N] as Frame>::CHANNELS == N);
                assert!(a.channel(c).unwrap().to_bits() == a[c].to_bits() && a.channel(N).is_none());
                let m: [$T; N] = a.map(|s| -s);
                assert!(m[c].to_bits() == (-a[c]).to_bits());
                kani::cover!(true, "end");
            }
        }
    };
}
frame_float!(frame_f32_n2, f32);
frame_float!(frame_f64_n2, f64);

// ------------------------------------------------------------------------------------------
// a bare sample used as a frame behaves as the 1-channel frame of that sample
// ------------------------------------------------------------------------------------------
macro_rules! mono_int {
    ($name:ident, $T:ty, $G:ty, $F:ty) => {
        #[kani::proof]
        #[kani::unwind(4)]
        pub fn $name() {
            let s: $T = <$T as IntFmt>::any_val();
            let f: [$T; 1] = [s];
            assert!(<$T as Frame>::CHANNELS == 1);
            assert!(<$T as Frame>::EQUILIBRIUM.raw() == <[$T; 1] as Frame>::EQUILIBRIUM[0].raw());
            // offsets
            let k: $G = <$G as IntFmt>::any_val();
            const SH: u32 = <$G as IntFmt>::BITS - <$T as IntFmt>::BITS;
            let sum = (s.amp() << SH) + k.amp();
            kani::assume(<$G as IntFmt>::min_raw() <= sum && sum <= <$G as IntFmt>::max_raw());
            assert!(Frame::offset_amp(s, k).raw() == f.offset_amp(k)[0].raw());
            assert!(Frame::add_amp(s, k).raw() == Frame::add_amp(f, [k])[0].raw());
            assert!(Frame::add_amp(s, [k]).raw() == Frame::add_amp(f, [k])[0].raw());
            // gains (constants: symbolic products are covered by the sample harnesses)
            let g: $F = match kani::any::<u8>() % 4 { 0 => 0.0, 1 => 1.0, 2 => 0.5, _ => -0.25 };
            assert!(Frame::scale_amp(s, g).raw() == f.scale_amp(g)[0].raw());
            assert!(Frame::mul_amp(s, g).raw() == Frame::mul_amp(f, [g])[0].raw());
            // conversions
            assert!(Frame::to_signed_frame(s).raw() == f.to_signed_frame()[0].raw());
            assert!(Frame::to_float_frame(s).to_bits() == f.to_float_frame()[0].to_bits());
            // map / zip_map / from_fn / from_samples
            let t: $T = <$T as IntFmt>::any_val();
            let m1: $T = Frame::map(s, |x| if x.raw() == t.raw() { s } else { t });
            let m2: [$T; 1] = f.map(|x| if x.raw() == t.raw() { s } else { t });
            assert!(m1.raw() == m2[0].raw());
            let z1: $T = Frame::zip_map(s, t, |x, y| if x.raw() < y.raw() { x } else { y });
            let z2: [$T; 1] = f.zip_map([t], |x, y| if x.raw() < y.raw() { x } else { y });
            assert!(z1.raw() == z2[0].raw());
            let ff: $T = Frame::from_fn(|i| if i == 0 { s } else { t });
            assert!(ff.raw() == s.raw());
            let m: usize = kani::any();
            kani::assume(m <= 2);
            let mut it = CountIter { items: [s, t], len: m, pos: 0, polls: 0 };
            let r: Option<$T> = Frame::from_samples(&mut it);
            assert!(r.is_some() == (m >= 1));
            if let Some(v) = r {
                assert!(v.raw() == s.raw() && it.pos == 1);
            }
            // channel access
            let i: usize = kani::any();
            assert!(Frame::channel(&s, i).is_some() == (i == 0));
            assert!(Frame::channel(&s, 0).unwrap().raw() == s.raw());
            let mut ch = Frame::channels(s);
            assert!(ch.len() == 1);
            assert!(ch.next().unwrap().raw() == s.raw());
            assert!(ch.len() == 0 && ch.next().is_none());
            let mut n = 0;
            for v in Frame::channels_ref(&s) {
                assert!(v.raw() == s.raw());
                n += 1;
            }
            assert!(n == 1);
            let mut w = s;
            for v in Frame::channels_mut(&mut w) {
                *v = t;
            }
            assert!(w.raw() == t.raw());
            let mut w = s;
            *Frame::channel_mut(&mut w, 0).unwrap() = t;
            assert!(w.raw() == t.raw() && Frame::channel_mut(&mut w, 1).is_none());
            kani::cover!(m == 0, "empty iterator");
            kani::cover!(true, "end");
        }
    };
}
pub mod mono {
    use super::*;
    mono_int!(mono_i8, i8, i8, f32);
    mono_int!(mono_i16, i16, i16, f32);
    mono_int!(mono_i24, I24, I24, f32);
    mono_int!(mono_i32, i32, i32, f32);
    mono_int!(mono_i48, I48, I48, f64);
    mono_int!(mono_i64, i64, i64, f64);
    mono_int!(mono_u8, u8, i8, f32);
    mono_int!(mono_u16, u16, i16, f32);
    mono_int!(mono_u24, U24, i32, f32);
    mono_int!(mono_u32, u32, i32, f32);
    mono_int!(mono_u48, U48, i64, f64);
    mono_int!(mono_u64, u64, i64, f64);

    macro_rules! mono_float {
        ($name:ident, $T:ty) => {
            #[kani::proof]
            #[kani::unwind(4)]
            pub fn $name() {
                let s: $T = kani::any();
                let k: $T = kani::any();
                kani::assume(s.is_finite() && k.is_finite());
                let f: [$T; 1] = [s];
                let same = |x: $T, y: $T| x.to_bits() == y.to_bits() || (x.is_nan() && y.is_nan());
                assert!(same(Frame::offset_amp(s, k), f.offset_amp(k)[0]));
                assert!(same(Frame::add_amp(s, k), Frame::add_amp(f, [k])[0]));
                let g: $T = match kani::any::<u8>() % 4 { 0 => 0.0, 1 => 1.0, 2 => 0.5, _ => -0.25 };
                assert!(same(Frame::scale_amp(s, g), f.scale_amp(g)[0]));
                assert!(same(Frame::mul_amp(s, g), Frame::mul_amp(f, [g])[0]));
                assert!(same(Frame::to_signed_frame(s), f.to_signed_frame()[0]));
                assert!(same(Frame::to_float_frame(s), f.to_float_frame()[0]));
                assert!(<$T as Frame>::CHANNELS == 1 && <$T as Frame>::EQUILIBRIUM == 0.0);
                assert!(Frame::channel(&s, 0).unwrap().to_bits() == s.to_bits() && Frame::channel(&s, 1).is_none());
                let mut ch = Frame::channels(s);
                assert!(ch.next().unwrap().to_bits() == s.to_bits() && ch.next().is_none());
                kani::cover!(true, "end");
            }
        };
    }
    mono_float!(mono_f32, f32);
    mono_float!(mono_f64, f64);
}
