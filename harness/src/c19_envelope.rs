//! C19 — rectifiers are |x| / max(x,0) / min(x,0) about equilibrium; the envelope follower is a
//! one-pole smoother without overshoot.
use crate::common::{ref_trunc_f32, IntFmt};
use dasp_envelope::detect::Peak;
use dasp_envelope::{Detect, Detector};
use dasp_frame::Frame;
use dasp_peak::{self as peak, FullWave, NegativeHalfWave, PositiveHalfWave, Rectifier};
use dasp_sample::{Sample, I24, I48, U24, U48};
use dasp_signal::envelope::SignalEnvelope;
use dasp_signal::Signal;

// ------------------------------------------------------------------------------------------
// rectifiers
// ------------------------------------------------------------------------------------------
macro_rules! rect_int {
    ($name:ident, $T:ty, $G:ty) => {
        #[kani::proof]
        #[kani::unwind(4)]
        pub fn $name() {
            let a: $T = <$T as IntFmt>::any_val();
            let b: $T = <$T as IntFmt>::any_val();
            const SH: u32 = <$G as IntFmt>::BITS - <$T as IntFmt>::BITS;
            let c: usize = kani::any();
            kani::assume(c < 2);
            let fr: [$T; 2] = [a, b];
            let s = fr[c];
            // positive / negative half-wave: the sample limited to the upper / lower side of equilibrium
            let p: [$T; 2] = peak::positive_half_wave(fr);
            assert!(p[c].amp() == if s.amp() > 0 { s.amp() } else { 0 }, "positive half-wave == max(amp, 0)");
            let n: [$T; 2] = peak::negative_half_wave(fr);
            assert!(n[c].amp() == if s.amp() < 0 { s.amp() } else { 0 }, "negative half-wave == min(amp, 0)");
            let pm: $T = peak::positive_half_wave(a);
            let nm: $T = peak::negative_half_wave(a);
            assert!(pm.raw() == p[0].raw() && nm.raw() == n[0].raw(), "mono == channel 0");
            assert!(PositiveHalfWave.rectify(fr)[c].raw() == p[c].raw());
            assert!(NegativeHalfWave.rectify(fr)[c].raw() == n[c].raw());
            // full wave: |amp| in the signed companion format, wherever -amp is representable
            if a.amp() != <$T as IntFmt>::min_raw() - (<$T as IntFmt>::raw(<$T as Sample>::EQUILIBRIUM))
                && b.amp() != <$T as IntFmt>::min_raw() - (<$T as IntFmt>::raw(<$T as Sample>::EQUILIBRIUM))
            {
                let f: [$G; 2] = peak::full_wave(fr);
                let want = (if s.amp() < 0 { -s.amp() } else { s.amp() }) << SH;
                assert!(f[c].amp() == want, "full-wave == |amp| about equilibrium");
                assert!(f[c].amp() >= 0);
                let fm: $G = peak::full_wave(a);
                assert!(fm.raw() == f[0].raw());
                assert!(FullWave.rectify(fr)[c].raw() == f[c].raw());
                kani::cover!(s.amp() < 0, "negative amplitude is mirrored");
            }
            kani::cover!(s.amp() > 0, "positive amplitude");
            kani::cover!(true, "end");
        }
    };
}
macro_rules! rect_float {
    ($name:ident, $T:ty) => {
        #[kani::proof]
        #[kani::unwind(4)]
        pub fn $name() {
            let a: $T = kani::any();
            let b: $T = kani::any();
            kani::assume(!a.is_nan() && !b.is_nan());
            let c: usize = kani::any();
            kani::assume(c < 2);
            let fr: [$T; 2] = [a, b];
            let s = fr[c];
            let f: [$T; 2] = peak::full_wave(fr);
            assert!(f[c] == if s < 0.0 { -s } else { s } && f[c] >= 0.0, "full-wave == |x|");
            let p: [$T; 2] = peak::positive_half_wave(fr);
            assert!(p[c] == if s > 0.0 { s } else { 0.0 }, "positive half-wave == max(x, 0)");
            let n: [$T; 2] = peak::negative_half_wave(fr);
            assert!(n[c] == if s < 0.0 { s } else { 0.0 }, "negative half-wave == min(x, 0)");
            let fm: $T = peak::full_wave(a);
            assert!(fm == f[0]);
            kani::cover!(s < 0.0, "negative");
            kani::cover!(true, "end");
        }
    };
}
pub mod rectify {
    use super::*;
    rect_int!(r_i8, i8, i8);
    rect_int!(r_i16, i16, i16);
    rect_int!(r_i24, I24, I24);
    rect_int!(r_i32, i32, i32);
    rect_int!(r_i48, I48, I48);
    rect_int!(r_i64, i64, i64);
    rect_int!(r_u8, u8, i8);
    rect_int!(r_u16, u16, i16);
    rect_int!(r_u24, U24, i32);
    rect_int!(r_u32, u32, i32);
    rect_int!(r_u48, U48, i64);
    rect_int!(r_u64, u64, i64);
    rect_float!(r_f32, f32);
    rect_float!(r_f64, f64);
}

// ------------------------------------------------------------------------------------------
// envelope follower: one step from ANY previous envelope, detected value and gains in [0, 1]
// ------------------------------------------------------------------------------------------
/// quick tier: gains k/256 (9 significant bits keep the symbolic f32 products cheap);
/// thorough tier: any f32 in [0, 1]
#[cfg(feature = "thorough")]
fn any_gain() -> f32 {
    let g: f32 = kani::any();
    kani::assume(g >= 0.0 && g <= 1.0);
    g
}
#[cfg(not(feature = "thorough"))]
fn any_gain() -> f32 {
    let k: u16 = kani::any();
    kani::assume(k <= 256);
    k as f32 / 256.0
}

pub mod step {
    use super::*;

    /// i16, positive half-wave peak detection (detector output type i16)
    #[kani::proof]
    pub fn i16_positive_half_wave() {
        let l: i16 = kani::any();
        kani::assume(l >= 0); // invariant of every reachable envelope (shown preserved below)
        let x: i16 = kani::any();
        let ga = any_gain();
        let gr = any_gain();
        let mut det: Detector<i16, Peak<PositiveHalfWave>> =
            Detector::verif_with_gains(Peak::positive_half_wave(), ga, gr, l);
        let out = det.next(x);
        let d: i16 = if x > 0 { x } else { 0 };
        let g = if l < d { ga } else { gr }; // attack when the detected value exceeds the previous envelope
        // reference: detected + trunc(gain * (previous - detected)), float ops mirrored bit-exactly
        let diff: i16 = l - d;
        let f: f32 = diff as f32 / 32768.0;
        let p: f32 = f * g;
        let t = ref_trunc_f32(p, 16);
        assert!(out as i128 == d as i128 + t, "envelope == detected + gain * (previous - detected)");
        let lo = if l < d { l } else { d };
        let hi = if l < d { d } else { l };
        assert!(lo <= out && out <= hi, "never outside [previous envelope, detected value]");
        assert!(out >= 0, "invariant: envelope of a positive half-wave stays >= 0");
        if g == 0.0 {
            assert!(out == d, "zero time constant: the envelope is the detected value");
        }
        let (a2, r2, last) = det.verif_state();
        assert!(last == out && a2 == ga && r2 == gr, "state: previous envelope := output; gains untouched");
        kani::cover!(l < d && g > 0.0 && g < 1.0, "attack");
        kani::cover!(l > d && g > 0.0 && g < 1.0, "release");
        kani::cover!(true, "end");
    }

    /// i16, negative half-wave: the mirror image (inputs whose negated amplitude is representable)
    #[kani::proof]
    pub fn i16_negative_half_wave() {
        let l: i16 = kani::any();
        kani::assume(l <= 0 && l > i16::MIN);
        let x: i16 = kani::any();
        kani::assume(x > i16::MIN);
        let ga = any_gain();
        let gr = any_gain();
        let mut det: Detector<i16, Peak<NegativeHalfWave>> =
            Detector::verif_with_gains(Peak::negative_half_wave(), ga, gr, l);
        let out = det.next(x);
        let d: i16 = if x < 0 { x } else { 0 };
        let g = if l < d { ga } else { gr };
        let diff: i16 = l - d;
        let p: f32 = (diff as f32 / 32768.0) * g;
        assert!(out as i128 == d as i128 + ref_trunc_f32(p, 16), "envelope == detected + gain * (previous - detected)");
        let lo = if l < d { l } else { d };
        let hi = if l < d { d } else { l };
        assert!(lo <= out && out <= hi, "never outside [previous envelope, detected value]");
        assert!(out <= 0 && out > i16::MIN, "invariant preserved");
        kani::cover!(l < d && g > 0.0 && g < 1.0, "attack (towards 0)");
        kani::cover!(l > d && g > 0.0 && g < 1.0, "release (away from 0)");
        kani::cover!(true, "end");
    }

    /// u8, positive half-wave (unsigned formats are re-centred about 128)
    #[kani::proof]
    pub fn u8_positive_half_wave() {
        let l: u8 = kani::any();
        kani::assume(l >= 128);
        let x: u8 = kani::any();
        let ga = any_gain();
        let gr = any_gain();
        let mut det: Detector<u8, Peak<PositiveHalfWave>> =
            Detector::verif_with_gains(Peak::positive_half_wave(), ga, gr, l);
        let out = det.next(x);
        let d: u8 = if x > 128 { x } else { 128 };
        let g = if l < d { ga } else { gr };
        let diff: i8 = (l as i16 - d as i16) as i8; // |diff| <= 127
        let p: f32 = (diff as f32 / 128.0) * g;
        let t = ref_trunc_f32(p, 8);
        assert!(out as i128 == d as i128 + t, "envelope == detected + gain * (previous - detected)");
        let lo = if l < d { l } else { d };
        let hi = if l < d { d } else { l };
        assert!(lo <= out && out <= hi, "never outside [previous envelope, detected value]");
        assert!(out >= 128);
        if g == 0.0 {
            assert!(out == d);
        }
        kani::cover!(l < d && g > 0.0 && g < 1.0, "attack");
        kani::cover!(l > d && g > 0.0 && g < 1.0, "release");
        kani::cover!(true, "end");
    }

    /// i16 full-wave, stereo: per channel, detector output is the signed companion
    #[kani::proof]
    #[kani::unwind(4)]
    pub fn i16_full_wave_stereo() {
        let l: [i16; 2] = [kani::any(), kani::any()];
        kani::assume(l[0] >= 0 && l[1] >= 0);
        let x: [i16; 2] = [kani::any(), kani::any()];
        kani::assume(x[0] != i16::MIN && x[1] != i16::MIN); // negated amplitude representable
        let ga = any_gain();
        let gr = any_gain();
        let mut det: Detector<[i16; 2], Peak<FullWave>> = Detector::verif_with_gains(Peak::full_wave(), ga, gr, l);
        let out = det.next(x);
        let mut c = 0;
        while c < 2 {
            let d: i16 = if x[c] < 0 { -x[c] } else { x[c] };
            let g = if l[c] < d { ga } else { gr };
            let diff: i16 = l[c] - d;
            let p: f32 = (diff as f32 / 32768.0) * g;
            assert!(out[c] as i128 == d as i128 + ref_trunc_f32(p, 16), "per-channel one-pole step");
            let lo = if l[c] < d { l[c] } else { d };
            let hi = if l[c] < d { d } else { l[c] };
            assert!(lo <= out[c] && out[c] <= hi);
            c += 1;
        }
        kani::cover!(x[1] < 0 && l[1] < -(x[1] + 1), "second channel, negative input, attack");
        kani::cover!(true, "end");
    }

    /// f32 full-wave: float arithmetic mirrored; sandwich within rounding
    #[kani::proof]
    pub fn f32_full_wave() {
        // 12-bit mantissas over a wide exponent range in both tiers (with arbitrary f32 values AND arbitrary
        // gains the query did not finish in 3000 s); the thorough tier widens the gains to any f32 in [0, 1]
        let (l, x): (f32, f32) = {
            let (a, b): (i16, i16) = (kani::any(), kani::any());
            let (e1, e2): (u8, u8) = (kani::any(), kani::any());
            kani::assume(a >= 0 && a <= 4095 && b >= -4095 && b <= 4095 && e1 <= 40 && e2 <= 40);
            (a as f32 * f32::from_bits((107 + e1 as u32) << 23), b as f32 * f32::from_bits((107 + e2 as u32) << 23))
        };
        kani::assume(l >= 0.0 && l <= 1.0e30 && x.is_finite() && x.abs() <= 1.0e30);
        let ga = any_gain();
        let gr = any_gain();
        let mut det: Detector<f32, Peak<FullWave>> = Detector::verif_with_gains(Peak::full_wave(), ga, gr, l);
        let out = det.next(x);
        let d = if x < 0.0 { -x } else { x };
        let g = if l < d { ga } else { gr };
        let want = d + (l + (-d)) * g;
        assert!(out == want, "envelope == detected + gain * (previous - detected)");
        let lo = if l < d { l } else { d };
        let hi = if l < d { d } else { l };
        let eps = hi * 2.4e-7; // two roundings of at most 2^-24 relative each
        assert!(out >= lo - eps && out <= hi + eps, "between previous envelope and detected value, up to rounding");
        if g == 0.0 {
            assert!(out == d);
        }
        kani::cover!(l < d && g > 0.0 && g < 1.0, "attack");
        kani::cover!(l > d && g > 0.0 && g < 1.0, "release");
        kani::cover!(true, "end");
    }
}

// ------------------------------------------------------------------------------------------
// gains, setters, adaptor
// ------------------------------------------------------------------------------------------
static mut POW_BASE: f32 = 0.0;
static mut POW_EXP: f32 = 0.0;
fn powf_marker(a: f32, b: f32) -> f32 {
    // deterministic stand-in for libm's powf: remembers its arguments, returns a value in (0,1)
    // that is an injective function of the exponent on the grid the harness uses
    unsafe {
        POW_BASE = a;
        POW_EXP = b;
    }
    // the two limits of e^b that the gain formula can hit are modelled exactly: e^-inf = 0, e^+inf = inf
    if b == f32::NEG_INFINITY {
        0.0
    } else if b == f32::INFINITY {
        f32::INFINITY
    } else if b <= -1.0 {
        0.25
    } else {
        0.75
    }
}

pub mod gains {
    use super::*;

    /// gain = exp(-1/frames), 0 for zero frames; new() stores attack and release in their own slots;
    /// the setters touch only their own gain and leave the previous envelope alone
    #[kani::proof]
    #[kani::unwind(8)]
    #[kani::stub(dasp_envelope::detect::ops::f32::powf32, super::powf_marker)]
    pub fn calc_gain_and_setters() {
        // attack 0.5 frames -> exponent -2 -> marker 0.25 ; release 4 frames -> exponent -0.25 -> 0.75
        let det: Detector<f32, Peak<FullWave>> = Detector::peak(0.5, 4.0);
        let (a, r, last) = det.verif_state();
        assert!(a == 0.25 && r == 0.75, "attack and release gains land in their own slots");
        assert!(last == 0.0, "envelope starts at equilibrium");
        unsafe {
            assert!(POW_BASE == core::f32::consts::E && POW_EXP == -0.25, "gain is e^(-1/frames)");
        }
        let det0: Detector<f32, Peak<FullWave>> = Detector::peak(0.0, 0.0);
        let (a0, r0, _) = det0.verif_state();
        assert!(a0 == 0.0 && r0 == 0.0, "zero frames: gain exactly 0");
        // -0.0 is a time of zero frames too (-0.0 == 0.0, -0.0 >= 0.0)
        let mut detn: Detector<f32, Peak<FullWave>> = Detector::peak(-0.0, -0.0);
        let (an, rn, _) = detn.verif_state();
        assert!(an == 0.0 && rn == 0.0, "zero frames written as -0.0: gain exactly 0");
        detn.set_attack_frames(4.0);
        detn.set_attack_frames(-0.0);
        detn.set_release_frames(-0.0);
        assert!(detn.verif_state().0 == 0.0 && detn.verif_state().1 == 0.0);
        // setters
        let l: f32 = kani::any();
        kani::assume(l >= 0.0 && l <= 1.0);
        let mut d2: Detector<f32, Peak<FullWave>> = Detector::verif_with_gains(Peak::full_wave(), 0.5, 0.125, l);
        d2.set_attack_frames(4.0);
        let (a, r, last) = d2.verif_state();
        assert!(a == 0.75 && r == 0.125 && last == l, "set_attack_frames changes the attack gain only");
        unsafe {
            assert!(POW_EXP == -0.25);
        }
        d2.set_release_frames(0.5);
        let (a, r, last) = d2.verif_state();
        assert!(a == 0.75 && r == 0.25 && last == l, "set_release_frames changes the release gain only");
        d2.set_release_frames(0.0);
        assert!(d2.verif_state().1 == 0.0);
        // other frame counts: the exponent handed to powf is -1/frames
        const NS: [f32; 5] = [3.0, 100.0, 44100.0, 0.001, 1.0e6];
        let mut i = 0;
        while i < 5 {
            d2.set_attack_frames(NS[i]);
            unsafe {
                assert!(POW_BASE == core::f32::consts::E && POW_EXP == -1.0 / NS[i]);
            }
            i += 1;
        }
        kani::cover!(true, "end");
    }

    /// changing the release mid-stream affects only subsequent frames; the adaptor pulls one
    /// source frame per output frame
    #[kani::proof]
    #[kani::unwind(6)]
    #[kani::stub(dasp_envelope::detect::ops::f32::powf32, super::powf_marker)]
    pub fn adaptor_and_mid_stream_change() {
        let xs: [i16; 3] = kani::any();
        let mut pulls = 0usize;
        // the source keeps yielding frames and reports itself exhausted from an arbitrary point on (an
        // endless source, a finite one read past its end, or an unequal-length mix)
        let exhausted_from: usize = kani::any();
        kani::assume(exhausted_from <= 3);
        let src = ReportingSrc { vals: xs, pulls: &mut pulls, exhausted_from };
        let mk = || -> Detector<i16, Peak<PositiveHalfWave>> { Detector::peak_positive_half_wave(0.5, 4.0) };
        let mut env = src.detect_envelope(mk());
        let mut reference = mk();
        let o0 = env.next();
        assert!(o0 == reference.next(xs[0]));
        env.set_release_frames(0.5);
        env.set_attack_frames(4.0);
        reference.set_release_frames(0.5);
        reference.set_attack_frames(4.0);
        let o1 = env.next();
        assert!(o1 == reference.next(xs[1]), "new gains apply from the next frame on");
        assert!(env.is_exhausted() == (2 >= exhausted_from), "exhaustion is the source's");
        kani::cover!(exhausted_from == 0, "source reports exhausted from the start");
        kani::cover!(exhausted_from == 3, "source not exhausted during the run");
        let (_, det) = env.into_parts();
        assert!(det.verif_state().2 == o1);
        assert!(pulls == 2, "one source frame per output frame");
        kani::cover!(true, "end");
    }

    /// RMS detection: the detected value is the windowed RMS (C11), smoothed by the same step
    #[kani::proof]
    #[kani::unwind(6)]
    #[kani::stub(dasp_envelope::detect::ops::f32::powf32, super::powf_marker)]
    #[kani::stub(dasp_sample::ops::f32::sqrt, super::sqrt_marker)]
    pub fn rms_detector_wiring() {
        use dasp_ring_buffer::Fixed;
        let k: i8 = kani::any();
        let x = k as f32 / 16.0;
        let mut det: Detector<f32, dasp_rms::Rms<f32, [f32; 2]>> = Detector::rms(Fixed::from([0.0f32; 2]), 0.0, 0.0);
        let mut rms: dasp_rms::Rms<f32, [f32; 2]> = dasp_rms::Rms::new(Fixed::from([0.0f32; 2]));
        // zero time constants: the envelope IS the detected value
        let out = det.next(x);
        assert!(out == rms.next(x), "detected value is the windowed RMS");
        kani::cover!(true, "end");
    }
}
pub struct ReportingSrc<'a> {
    pub vals: [i16; 3],
    pub pulls: &'a mut usize,
    pub exhausted_from: usize,
}
impl<'a> dasp_signal::Signal for ReportingSrc<'a> {
    type Frame = i16;
    fn next(&mut self) -> i16 {
        let v = self.vals[if *self.pulls < 3 { *self.pulls } else { 2 }];
        *self.pulls += 1;
        v
    }
    fn is_exhausted(&self) -> bool {
        *self.pulls >= self.exhausted_from
    }
}
fn sqrt_marker(x: f32) -> f32 {
    x + 1.0
}
