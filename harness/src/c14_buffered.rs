//! C14 — buffered signals are a transparent prefetch of the source.
use crate::sigprobe::Probe;
use dasp_ring_buffer::Bounded;
use dasp_signal::{self as signal, Signal};

const L: usize = 4;

macro_rules! buffered {
    ($m:ident, $cap:expr) => {
        pub mod $m {
            use super::*;
            const CAP: usize = $cap;

            fn setup() -> (Probe<i16, L>, usize, usize, [i16; CAP]) {
                let src: Probe<i16, L> = Probe::new(kani::any(), {
                    let l: usize = kani::any();
                    kani::assume(l <= L);
                    l
                });
                let start: usize = kani::any();
                let len: usize = kani::any();
                kani::assume(start < CAP && len <= CAP);
                let data: [i16; CAP] = kani::any();
                (src, start, len, data)
            }
            /// frame number n of the ideal stream: pre-filled frames oldest first, then the source
            fn ideal(src: &Probe<i16, L>, start: usize, len: usize, data: &[i16; CAP], n: usize) -> i16 {
                if n < len { data[(start + n) % CAP] } else { src.frame(n - len) }
            }

            /// frame by frame
            #[kani::proof]
            #[kani::unwind(10)]
            pub fn next_by_next() {
                let (mut src, start, len, data) = setup();
                let s0 = src.clone();
                {
                    let mut b = src.by_ref().buffered(Bounded::from_raw_parts(start, len, data));
                    for n in 0..6 {
                        // exhausted <=> nothing buffered (n = len + k*CAP) AND the source has been pulled dry
                        let want_exh = n >= len && (n - len) % CAP == 0 && (n - len) >= s0.len;
                        assert!(b.is_exhausted() == want_exh, "exhausted only when the source is exhausted and the buffer is empty");
                        let f = b.next();
                        assert!(f == ideal(&s0, start, len, &data, n), "pre-filled frames first, then the source, in order");
                    }
                }
                // pulls: one whole buffer each time it ran empty, none otherwise
                let from_src = if 6 > len { 6 - len } else { 0 };
                let refills = (from_src + CAP - 1) / CAP;
                assert!(src.pulls == refills * CAP, "exactly one buffer's worth of source frames per refill");
                kani::cover!(len == CAP && start > 0 || CAP == 1, "pre-filled, wrapped ring buffer");
                kani::cover!(len == 0, "empty buffer at the start");
                kani::cover!(true, "end");
            }

            /// in batches, partially or fully drained, mixed with single next() calls: the stream, the
            /// number of source frames pulled (one whole buffer exactly when a call finds the buffer
            /// empty, none otherwise) and the exhaustion flag all follow the ideal prefetch model
            #[kani::proof]
            #[kani::unwind(10)]
            pub fn batches() {
                let (mut src, start, len, data) = setup();
                let s0 = src.clone();
                let mut n = 0usize; // frames delivered so far
                let mut buffered = len; // model: frames currently held
                let mut pulled = 0usize; // model: source frames pulled so far
                let mut partial_then_batch = false;
                {
                    let mut b = src.by_ref().buffered(Bounded::from_raw_parts(start, len, data));
                    let mut last_was_partial = false;
                    for _ in 0..3 {
                        assert!(b.is_exhausted() == (buffered == 0 && pulled >= s0.len), "exhausted <=> buffer empty and source exhausted");
                        let use_batch: bool = kani::any();
                        if use_batch {
                            partial_then_batch |= last_was_partial;
                            if buffered == 0 {
                                buffered = CAP;
                                pulled += CAP;
                            }
                            let take: usize = kani::any();
                            kani::assume(take <= CAP + 1);
                            let mut got = 0;
                            let mut frames = b.next_frames();
                            while got < take {
                                match frames.next() {
                                    Some(f) => {
                                        assert!(f == ideal(&s0, start, len, &data, n), "batch frames continue the stream");
                                        n += 1;
                                        got += 1;
                                    }
                                    None => break,
                                }
                            }
                            assert!(got == if take < buffered { take } else { buffered }, "a batch holds exactly the frames that were buffered");
                            buffered -= got;
                            last_was_partial = buffered > 0;
                        } else {
                            if buffered == 0 {
                                buffered = CAP;
                                pulled += CAP;
                            }
                            let f = b.next();
                            assert!(f == ideal(&s0, start, len, &data, n));
                            n += 1;
                            buffered -= 1;
                            last_was_partial = false;
                        }
                    }
                }
                assert!(src.pulls == pulled, "one buffer's worth of source frames each time it runs empty, none otherwise");
                kani::cover!(CAP == 1 || partial_then_batch, "a partially drained batch followed by another batch");
                kani::cover!(pulled > 0, "went through a refill");
                kani::cover!(true, "end");
            }

            /// exhaustion: reported only when the source is exhausted AND every buffered frame delivered;
            /// draining to exhaustion yields the source's frames then fewer than one buffer of padding
            #[kani::proof]
            #[kani::unwind(12)]
            pub fn drain_to_exhaustion() {
                let (src, start, len, data) = setup();
                let s0 = src.clone();
                let mut b = src.buffered(Bounded::from_raw_parts(start, len, data));
                let mut n = 0usize;
                for _ in 0..L + 2 * CAP + 1 {
                    if b.is_exhausted() {
                        break;
                    }
                    let f = b.next();
                    assert!(f == ideal(&s0, start, len, &data, n));
                    n += 1;
                }
                assert!(b.is_exhausted(), "exhaustion is reached within source length + 2 buffers");
                let refills = (s0.len + CAP - 1) / CAP;
                assert!(n == len + refills * CAP, "pre-filled frames + the source's frames + fewer than one buffer of padding");
                let (rest_src, rb) = b.into_parts();
                assert!(rb.len() == 0 && rest_src.is_exhausted(), "exhausted <=> buffer empty and source exhausted");
                assert!(rest_src.pulls == refills * CAP && rest_src.pulls - s0.len < CAP, "padding shorter than one buffer");
                kani::cover!(s0.len == L, "longest source");
                kani::cover!(true, "end");
            }
        }
    };
}
buffered!(cap1, 1);
buffered!(cap2, 2);
buffered!(cap3, 3);
