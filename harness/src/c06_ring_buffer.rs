//! C06 — Bounded / Fixed ring buffers are ideal FIFO queues / delay lines.
//!
//! Inductive step: the pre-state is ANY state accepted by `from_raw_parts` (the representation
//! invariant), one operation is run with arbitrary arguments, and return value, abstract content
//! and invariant afterwards are compared with an ideal queue computed here from the raw parts.
use dasp_ring_buffer::{Bounded, Fixed};

/// Abstract content of a bounded buffer: element i (oldest first) for i < len.
fn model_b<const N: usize>(start: usize, len: usize, data: &[u8; N], i: usize) -> u8 {
    data[(start + i) % N]
}

fn any_bounded<const N: usize>() -> (usize, usize, [u8; N], Bounded<[u8; N]>) {
    let start: usize = kani::any();
    let len: usize = kani::any();
    let data: [u8; N] = kani::any();
    kani::assume(start < N);
    kani::assume(len <= N);
    (start, len, data, Bounded::from_raw_parts(start, len, data))
}

/// invariant + abstract content of `rb` equals `expect[..elen]`
fn assert_bounded_is<const N: usize>(rb: Bounded<[u8; N]>, expect: &[u8; N], elen: usize) {
    assert!(rb.len() == elen);
    assert!(rb.max_len() == N);
    assert!(rb.is_empty() == (elen == 0));
    assert!(rb.is_full() == (elen == N));
    let (s, l, d) = unsafe { rb.into_raw_parts() };
    assert!(s < N && l <= N && l == elen);
    let i: usize = kani::any();
    if i < elen {
        assert!(d[(s + i) % N] == expect[i]);
    }
}

macro_rules! bounded_harnesses {
    ($m:ident, $n:expr) => {
        pub mod $m {
            use super::*;
            const N: usize = $n;

            #[kani::proof]
            #[kani::unwind(8)]
            pub fn push() {
                let (start, len, data, mut rb) = any_bounded::<N>();
                let x: u8 = kani::any();
                let mut expect = [0u8; N];
                let r = rb.push(x);
                let elen;
                if len == N {
                    assert!(r == Some(model_b(start, len, &data, 0)));
                    for i in 0..N - 1 {
                        expect[i] = model_b(start, len, &data, i + 1);
                    }
                    expect[N - 1] = x;
                    elen = N;
                    kani::cover!(true, "push on full buffer");
                } else {
                    assert!(r.is_none());
                    for i in 0..N {
                        if i < len {
                            expect[i] = model_b(start, len, &data, i);
                        }
                    }
                    expect[len] = x;
                    elen = len + 1;
                    kani::cover!(N == 1 || start + len >= N, "push wraps");
                }
                assert_bounded_is(rb, &expect, elen);
                kani::cover!(true, "end");
            }

            #[kani::proof]
            #[kani::unwind(8)]
            pub fn pop() {
                let (start, len, data, mut rb) = any_bounded::<N>();
                let mut expect = [0u8; N];
                let r = rb.pop();
                let elen;
                if len == 0 {
                    assert!(r.is_none());
                    elen = 0;
                    kani::cover!(true, "pop on empty");
                } else {
                    assert!(r == Some(model_b(start, len, &data, 0)));
                    for i in 0..N {
                        if i + 1 < len {
                            expect[i] = model_b(start, len, &data, i + 1);
                        }
                    }
                    elen = len - 1;
                    kani::cover!(start == N - 1, "pop wraps start");
                }
                assert_bounded_is(rb, &expect, elen);
                kani::cover!(true, "end");
            }

            #[kani::proof]
            #[kani::unwind(8)]
            pub fn get() {
                let (start, len, data, rb) = any_bounded::<N>();
                let i: usize = kani::any();
                let r = rb.get(i);
                if i < len {
                    assert!(r == Some(&model_b(start, len, &data, i)));
                    kani::cover!(N == 1 || start > 0, "get with start > 0");
                } else {
                    assert!(r.is_none());
                    kani::cover!(true, "get out of range");
                }
                kani::cover!(true, "end");
            }

            #[kani::proof]
            #[kani::unwind(8)]
            pub fn get_mut_and_index() {
                let (start, len, data, mut rb) = any_bounded::<N>();
                let i: usize = kani::any();
                let x: u8 = kani::any();
                match rb.get_mut(i) {
                    Some(slot) => {
                        assert!(i < len);
                        assert!(*slot == model_b(start, len, &data, i));
                        *slot = x;
                    }
                    None => assert!(i >= len),
                }
                if i < len {
                    // Index / IndexMut agree with get on live elements
                    assert!(rb[i] == x);
                    let y: u8 = kani::any();
                    rb[i] = y;
                    assert!(rb.get(i) == Some(&y));
                    // everything else untouched, invariant unchanged
                    let (s, l, d) = unsafe { rb.into_raw_parts() };
                    assert!(s == start && l == len);
                    let j: usize = kani::any();
                    if j < len && j != i {
                        assert!(d[(s + j) % N] == model_b(start, len, &data, j));
                    }
                    assert!(d[(s + i) % N] == y);
                    kani::cover!(N == 1 || start > 0, "write through index with start > 0");
                }
                kani::cover!(true, "end");
            }

            #[kani::proof]
            #[kani::unwind(8)]
            pub fn slices() {
                let (start, len, data, mut rb) = any_bounded::<N>();
                {
                    let (a, b) = rb.slices();
                    assert!(a.len() + b.len() == len);
                    let i: usize = kani::any();
                    kani::assume(i < len);
                    let v = if i < a.len() { a[i] } else { b[i - a.len()] };
                    assert!(v == model_b(start, len, &data, i));
                    kani::cover!(N == 1 || b.len() > 0, "two non-empty slices");
                }
                {
                    let i: usize = kani::any();
                    kani::assume(i < len);
                    let x: u8 = kani::any();
                    let (a, b) = rb.slices_mut();
                    assert!(a.len() + b.len() == len);
                    let al = a.len();
                    let slot = if i < al { &mut a[i] } else { &mut b[i - al] };
                    assert!(*slot == model_b(start, len, &data, i));
                    *slot = x;
                    assert!(rb.get(i) == Some(&x));
                }
                kani::cover!(true, "end");
            }

            #[kani::proof]
            #[kani::unwind(8)]
            pub fn iter() {
                let (start, len, data, mut rb) = any_bounded::<N>();
                let mut k = 0;
                for v in rb.iter() {
                    assert!(k < len);
                    assert!(*v == model_b(start, len, &data, k));
                    k += 1;
                }
                assert!(k == len);
                let mut k = 0;
                for v in rb.iter_mut() {
                    assert!(k < len);
                    assert!(*v == model_b(start, len, &data, k));
                    *v = v.wrapping_add(1);
                    k += 1;
                }
                assert!(k == len);
                let i: usize = kani::any();
                kani::assume(i < len);
                assert!(rb.get(i) == Some(&model_b(start, len, &data, i).wrapping_add(1)));
                kani::cover!(len == N && (N == 1 || start > 0), "iterate a full wrapped buffer");
                kani::cover!(true, "end");
            }

            #[kani::proof]
            #[kani::unwind(8)]
            pub fn drain() {
                let (start, len, data, mut rb) = any_bounded::<N>();
                let j: usize = kani::any();
                kani::assume(j <= N + 1);
                let mut taken = 0;
                {
                    let mut d = rb.drain();
                    assert!(d.len() == len);
                    assert!(d.size_hint() == (len, Some(len)));
                    while taken < j {
                        match d.next() {
                            Some(v) => {
                                assert!(taken < len);
                                assert!(v == model_b(start, len, &data, taken));
                                taken += 1;
                            }
                            None => {
                                assert!(taken == len);
                                break;
                            }
                        }
                    }
                }
                assert!(taken == if j < len { j } else { len });
                let mut expect = [0u8; N];
                for i in 0..N {
                    if taken + i < len {
                        expect[i] = model_b(start, len, &data, taken + i);
                    }
                }
                kani::cover!(N == 1 || (taken > 0 && taken < len), "partial drain");
                assert_bounded_is(rb, &expect, len - taken);
                kani::cover!(true, "end");
            }

            #[kani::proof]
            #[kani::unwind(8)]
            pub fn constructors() {
                let data: [u8; N] = kani::any();
                let rb = Bounded::from(data);
                assert!(rb.len() == 0 && rb.is_empty() && rb.max_len() == N);
                assert!(rb.get(0).is_none());
                let (s, l, _) = unsafe { rb.into_raw_parts() };
                assert!(s == 0 && l == 0);
                let rb = Bounded::from_full(data);
                assert!(rb.len() == N && rb.is_full());
                let i: usize = kani::any();
                kani::assume(i < N);
                assert!(rb.get(i) == Some(&data[i]));
                let (a, b) = rb.slices();
                assert!(a.len() == N && b.len() == 0);
                kani::cover!(true, "end");
            }

            /// Two operations chosen symbolically from an arbitrary state, compared with the
            /// ideal queue after each (cross-check of the one-step harnesses' composition).
            #[kani::proof]
            #[kani::unwind(8)]
            pub fn two_ops() {
                let (start, len, data, mut rb) = any_bounded::<N>();
                let mut q = [0u8; N];
                let mut ql = len;
                for i in 0..N {
                    if i < len {
                        q[i] = model_b(start, len, &data, i);
                    }
                }
                for _ in 0..2 {
                    let is_push: bool = kani::any();
                    if is_push {
                        let x: u8 = kani::any();
                        let r = rb.push(x);
                        if ql == N {
                            assert!(r == Some(q[0]));
                            for i in 0..N - 1 {
                                q[i] = q[i + 1];
                            }
                            q[N - 1] = x;
                        } else {
                            assert!(r.is_none());
                            q[ql] = x;
                            ql += 1;
                        }
                    } else {
                        let r = rb.pop();
                        if ql == 0 {
                            assert!(r.is_none());
                        } else {
                            assert!(r == Some(q[0]));
                            for i in 0..N - 1 {
                                q[i] = q[i + 1];
                            }
                            ql -= 1;
                        }
                    }
                    assert!(rb.len() == ql);
                    let i: usize = kani::any();
                    if i < ql {
                        assert!(rb.get(i) == Some(&q[i]));
                        assert!(rb[i] == q[i]);
                    } else {
                        assert!(rb.get(i).is_none());
                    }
                }
                kani::cover!(true, "end");
            }
        }
    };
}

bounded_harnesses!(bounded_n1, 1);
bounded_harnesses!(bounded_n2, 2);
bounded_harnesses!(bounded_n3, 3);
bounded_harnesses!(bounded_n4, 4);
bounded_harnesses!(bounded_n5, 5);
bounded_harnesses!(bounded_n6, 6);

// ------------------------------------------------------------------------------------------
// Fixed
// ------------------------------------------------------------------------------------------

fn model_f<const N: usize>(first: usize, data: &[u8; N], i: usize) -> u8 {
    data[(first + i) % N]
}

fn any_fixed<const N: usize>() -> (usize, [u8; N], Fixed<[u8; N]>) {
    let first: usize = kani::any();
    let data: [u8; N] = kani::any();
    kani::assume(first < N);
    (first, data, Fixed::from_raw_parts(first, data))
}

fn assert_fixed_is<const N: usize>(rb: Fixed<[u8; N]>, expect: &[u8; N]) {
    assert!(rb.len() == N);
    let (f, d) = rb.into_raw_parts();
    assert!(f < N);
    let i: usize = kani::any();
    kani::assume(i < N);
    assert!(d[(f + i) % N] == expect[i]);
}

macro_rules! fixed_harnesses {
    ($m:ident, $n:expr) => {
        pub mod $m {
            use super::*;
            const N: usize = $n;

            #[kani::proof]
            #[kani::unwind(8)]
            pub fn push() {
                let (first, data, mut rb) = any_fixed::<N>();
                let x: u8 = kani::any();
                let r = rb.push(x);
                assert!(r == model_f(first, &data, 0));
                let mut expect = [0u8; N];
                for i in 0..N - 1 {
                    expect[i] = model_f(first, &data, i + 1);
                }
                expect[N - 1] = x;
                assert!(*rb.get(N - 1) == x);
                kani::cover!(first == N - 1, "push wraps first");
                assert_fixed_is(rb, &expect);
                kani::cover!(true, "end");
            }

            /// indexing wraps modulo N for EVERY usize index (doc: "If index is out of range it
            /// will be looped around the length of the data slice")
            #[kani::proof]
            #[kani::unwind(8)]
            pub fn get_any_index() {
                let (first, data, mut rb) = any_fixed::<N>();
                let i: usize = kani::any();
                let want = model_f(first, &data, i % N);
                assert!(*rb.get(i) == want);
                assert!(rb[i] == want);
                let x: u8 = kani::any();
                *rb.get_mut(i) = x;
                assert!(*rb.get(i % N) == x);
                let y: u8 = kani::any();
                rb[i] = y;
                assert!(*rb.get(i % N) == y);
                let j: usize = kani::any();
                if j < N && j != i % N {
                    assert!(*rb.get(j) == model_f(first, &data, j));
                }
                kani::cover!(i >= N, "out-of-range index wraps");
                kani::cover!(i > usize::MAX - N, "index near usize::MAX");
                kani::cover!(true, "end");
            }

            #[kani::proof]
            #[kani::unwind(8)]
            pub fn set_first() {
                let (first, data, mut rb) = any_fixed::<N>();
                let k: usize = kani::any();
                rb.set_first(k);
                // set_first(k) makes the slot with absolute position k % N the oldest element
                let i: usize = kani::any();
                kani::assume(i < N);
                assert!(*rb.get(i) == data[(k % N + i) % N]);
                let (f, _) = rb.into_raw_parts();
                assert!(f == k % N);
                kani::cover!(k >= N, "set_first wraps");
                kani::cover!(true, "end");
            }

            #[kani::proof]
            #[kani::unwind(8)]
            pub fn slices() {
                let (first, data, mut rb) = any_fixed::<N>();
                {
                    let (a, b) = rb.slices();
                    assert!(a.len() + b.len() == N);
                    let i: usize = kani::any();
                    kani::assume(i < N);
                    let v = if i < a.len() { a[i] } else { b[i - a.len()] };
                    assert!(v == model_f(first, &data, i));
                }
                {
                    let i: usize = kani::any();
                    kani::assume(i < N);
                    let x: u8 = kani::any();
                    let (a, b) = rb.slices_mut();
                    assert!(a.len() + b.len() == N);
                    let al = a.len();
                    let slot = if i < al { &mut a[i] } else { &mut b[i - al] };
                    assert!(*slot == model_f(first, &data, i));
                    *slot = x;
                    assert!(*rb.get(i) == x);
                }
                kani::cover!(N == 1 || first > 0, "two non-empty slices");
                kani::cover!(true, "end");
            }

            #[kani::proof]
            #[kani::unwind(8)]
            pub fn iter() {
                let (first, data, rb) = any_fixed::<N>();
                let mut it = rb.iter();
                for k in 0..N {
                    assert!(it.next() == Some(&model_f(first, &data, k)));
                }
                assert!(it.next().is_none());
                kani::cover!(N == 1 || first > 0, "iterate with first > 0");
                kani::cover!(true, "end");
            }

            /// looping iteration: the first 2N items
            #[kani::proof]
            #[kani::unwind(14)]
            pub fn iter_loop() {
                let (first, data, rb) = any_fixed::<N>();
                let mut it = rb.iter_loop();
                for k in 0..2 * N {
                    assert!(it.next() == Some(&model_f(first, &data, k % N)));
                }
                kani::cover!(N == 1 || first > 0, "iterate with first > 0");
                kani::cover!(true, "end");
            }

            #[kani::proof]
            #[kani::unwind(8)]
            pub fn iter_mut() {
                let (first, data, mut rb) = any_fixed::<N>();
                let mut k = 0;
                for v in rb.iter_mut() {
                    assert!(k < N);
                    assert!(*v == model_f(first, &data, k));
                    *v = v.wrapping_add(1);
                    k += 1;
                }
                assert!(k == N);
                let i: usize = kani::any();
                kani::assume(i < N);
                assert!(*rb.get(i) == model_f(first, &data, i).wrapping_add(1));
                kani::cover!(N == 1 || first > 0, "iterate with first > 0");
                kani::cover!(true, "end");
            }

            /// a push returns exactly the value pushed N pushes earlier
            #[kani::proof]
            #[kani::unwind(8)]
            pub fn delay_line() {
                let (first, data, mut rb) = any_fixed::<N>();
                let xs: [u8; N] = kani::any();
                for i in 0..N {
                    let r = rb.push(xs[i]);
                    assert!(r == model_f(first, &data, i));
                }
                let y: u8 = kani::any();
                assert!(rb.push(y) == xs[0]);
                let (f, _) = rb.into_raw_parts();
                assert!(f == (first + 1) % N);
                kani::cover!(true, "end");
            }

            #[kani::proof]
            #[kani::unwind(8)]
            pub fn constructors() {
                let data: [u8; N] = kani::any();
                let rb = Fixed::from(data);
                assert!(rb.len() == N);
                let i: usize = kani::any();
                kani::assume(i < N);
                assert!(rb[i] == data[i]);
                let (f, d) = rb.into_raw_parts();
                assert!(f == 0 && d[i] == data[i]);
                kani::cover!(true, "end");
            }
        }
    };
}

fixed_harnesses!(fixed_n1, 1);
fixed_harnesses!(fixed_n2, 2);
fixed_harnesses!(fixed_n3, 3);
fixed_harnesses!(fixed_n4, 4);
fixed_harnesses!(fixed_n5, 5);
fixed_harnesses!(fixed_n6, 6);

// ------------------------------------------------------------------------------------------
// other storage types (same generic code through the Slice / SliceMut traits), capacity 3
// ------------------------------------------------------------------------------------------
pub mod storage {
    use super::*;
    const N: usize = 3;

    #[kani::proof]
    #[kani::unwind(8)]
    pub fn bounded_mut_slice() {
        let start: usize = kani::any();
        let len: usize = kani::any();
        let mut data: [u8; N] = kani::any();
        let orig = data;
        kani::assume(start < N && len <= N);
        let mut rb = Bounded::from_raw_parts(start, len, &mut data[..]);
        let x: u8 = kani::any();
        let r = rb.push(x);
        if len == N {
            assert!(r == Some(model_b(start, len, &orig, 0)));
        } else {
            assert!(r.is_none());
        }
        let nl = if len == N { N } else { len + 1 };
        assert!(rb.len() == nl);
        assert!(rb.get(nl - 1) == Some(&x));
        let p = rb.pop();
        let oldest = if len == N { model_b(start, len, &orig, 1 % N) } else if len == 0 { x } else { model_b(start, len, &orig, 0) };
        assert!(p == Some(oldest));
        kani::cover!(len == N && start == 2, "full, wrapped");
        kani::cover!(true, "end");
    }

    #[kani::proof]
    #[kani::unwind(8)]
    pub fn bounded_boxed_slice() {
        let start: usize = kani::any();
        let len: usize = kani::any();
        let data: [u8; N] = kani::any();
        kani::assume(start < N && len <= N);
        let b: Box<[u8]> = Box::new(data);
        let p0 = b.as_ptr();
        let mut rb = Bounded::from_raw_parts(start, len, b);
        let x: u8 = kani::any();
        let r = rb.push(x);
        if len == N {
            assert!(r == Some(model_b(start, len, &data, 0)));
        } else {
            assert!(r.is_none());
        }
        let i: usize = kani::any();
        if i < len && len < N {
            assert!(rb.get(i) == Some(&model_b(start, len, &data, i)));
        }
        let (_, _, b) = unsafe { rb.into_raw_parts() };
        assert!(b.as_ptr() == p0 && b.len() == N);
        kani::cover!(true, "end");
    }

    #[kani::proof]
    #[kani::unwind(8)]
    pub fn fixed_mut_slice() {
        let first: usize = kani::any();
        let mut data: [u8; N] = kani::any();
        let orig = data;
        kani::assume(first < N);
        let mut rb = Fixed::from_raw_parts(first, &mut data[..]);
        let x: u8 = kani::any();
        assert!(rb.push(x) == model_f(first, &orig, 0));
        let i: usize = kani::any();
        kani::assume(i < N - 1);
        assert!(rb[i] == model_f(first, &orig, i + 1));
        assert!(rb[N - 1] == x);
        kani::cover!(first == 2, "wrapped");
        kani::cover!(true, "end");
    }

    /// `Extend` is exactly repeated `push` for both buffers, for fewer and for more items than fit
    #[kani::proof]
    #[kani::unwind(8)]
    pub fn extend_is_repeated_push() {
        let start: usize = kani::any();
        let len: usize = kani::any();
        let data: [u8; N] = kani::any();
        kani::assume(start < N && len <= N);
        let items: [u8; 5] = kani::any();
        let k: usize = kani::any();
        kani::assume(k <= 5);
        let mut a = Bounded::from_raw_parts(start, len, data);
        let mut b = Bounded::from_raw_parts(start, len, data);
        a.extend(items[..k].iter().cloned());
        for i in 0..k {
            b.push(items[i]);
        }
        assert!(a.len() == b.len());
        let i: usize = kani::any();
        assert!(a.get(i) == b.get(i), "Bounded::extend == repeated push");
        let first: usize = kani::any();
        kani::assume(first < N);
        let mut fa = Fixed::from_raw_parts(first, data);
        let mut fb = Fixed::from_raw_parts(first, data);
        fa.extend(items[..k].iter().cloned());
        for i in 0..k {
            fb.push(items[i]);
        }
        let j: usize = kani::any();
        kani::assume(j < N);
        assert!(fa[j] == fb[j], "Fixed::extend == repeated push");
        let (f1, _) = fa.into_raw_parts();
        let (f2, _) = fb.into_raw_parts();
        assert!(f1 == f2);
        kani::cover!(k == 5, "more items than the buffer holds");
        kani::cover!(true, "end");
    }

    #[kani::proof]
    #[kani::unwind(8)]
    pub fn fixed_shared_slice() {
        let first: usize = kani::any();
        let data: [u8; N] = kani::any();
        kani::assume(first < N);
        let rb = Fixed::from_raw_parts(first, &data[..]);
        let i: usize = kani::any();
        kani::assume(i < 2 * N);
        assert!(rb[i] == model_f(first, &data, i % N));
        let (a, b) = rb.slices();
        assert!(a.len() == N - first && b.len() == first);
        kani::cover!(true, "end");
    }
}
