//! Instrumented source signal shared by the signal-adaptor harnesses (C04, C05, C07, C08, C12, C14).
use dasp_frame::Frame;
use dasp_signal::Signal;

/// Yields `frames[0..len]`, then equilibrium forever; counts how often it was pulled.
#[derive(Clone)]
pub struct Probe<F: Frame, const L: usize> {
    pub frames: [F; L],
    pub len: usize,
    pub pulls: usize,
}

impl<F: Frame, const L: usize> Probe<F, L> {
    pub fn new(frames: [F; L], len: usize) -> Self {
        Probe { frames, len, pulls: 0 }
    }
    /// the frame a consumer must see as source frame number n
    pub fn frame(&self, n: usize) -> F {
        if n < self.len && n < L { self.frames[n] } else { F::EQUILIBRIUM }
    }
}

impl<F: Frame, const L: usize> Signal for Probe<F, L> {
    type Frame = F;
    fn next(&mut self) -> F {
        let f = self.frame(self.pulls);
        self.pulls += 1;
        f
    }
    fn is_exhausted(&self) -> bool {
        self.pulls >= self.len
    }
}

/// Iterator over the first `len` items of an array; counts polls and asserts it is never polled
/// again after it has returned `None`.
pub struct CountIter<T: Copy, const M: usize> {
    pub items: [T; M],
    pub len: usize,
    pub pos: usize,
    pub polls: usize,
    pub done: bool,
}
impl<T: Copy, const M: usize> CountIter<T, M> {
    pub fn new(items: [T; M], len: usize) -> Self {
        CountIter { items, len, pos: 0, polls: 0, done: false }
    }
}
impl<T: Copy, const M: usize> Iterator for CountIter<T, M> {
    type Item = T;
    fn next(&mut self) -> Option<T> {
        assert!(!self.done, "iterator polled again after it returned None");
        self.polls += 1;
        if self.pos < self.len && self.pos < M {
            let v = self.items[self.pos];
            self.pos += 1;
            Some(v)
        } else {
            self.done = true;
            None
        }
    }
}
