//! C05 — finite signals end exactly once: exhaustion is exact, contagious, then silent.
use crate::sigprobe::{CountIter, Probe};
use dasp_frame::Frame;
use dasp_sample::Sample;
use dasp_signal::{self as signal, Signal};

const M: usize = 6;

fn any_len(max: usize) -> usize {
    let l: usize = kani::any();
    kani::assume(l <= max);
    l
}

pub mod sources {
    use super::*;

    /// from_iter over frames: exactly the iterator's frames in order, exhausted exactly when none
    /// remain, equilibrium forever after, the iterator is never polled after it returned None
    #[kani::proof]
    #[kani::unwind(12)]
    pub fn from_iter_frames() {
        let items: [[i16; 2]; M] = kani::any();
        let len = any_len(M);
        let mut s = signal::from_iter(CountIter::new(items, len));
        for n in 0..M + 3 {
            assert!(s.is_exhausted() == (n >= len), "reports exhaustion exactly when no frame remains");
            let f = s.next();
            if n < len {
                assert!(f == items[n], "frame n in order");
            } else {
                assert!(f == [0, 0], "equilibrium after the end");
            }
        }
        assert!(s.is_exhausted());
        kani::cover!(len == 0, "empty iterator");
        kani::cover!(len == M, "full length");
        kani::cover!(true, "end");
    }

    macro_rules! interleaved {
        ($name:ident, $c:expr) => {
            /// from_interleaved_samples_iter with $c channels: complete frames only; a trailing
            /// incomplete frame is dropped
            #[kani::proof]
            #[kani::unwind(12)]
            pub fn $name() {
                const C: usize = $c;
                let items: [i16; M] = kani::any();
                let len = any_len(M);
                let frames = len / C;
                let mut s = signal::from_interleaved_samples_iter::<_, [i16; C]>(CountIter::new(items, len));
                for n in 0..M / C + 3 {
                    assert!(s.is_exhausted() == (n >= frames), "exhausted exactly when no complete frame remains");
                    let f: [i16; C] = s.next();
                    let c: usize = kani::any();
                    kani::assume(c < C);
                    if n < frames {
                        assert!(f[c] == items[n * C + c], "channel c of frame n is sample n*C + c");
                    } else {
                        assert!(f[c] == 0, "equilibrium after the end");
                    }
                }
                kani::cover!(C == 1 || len % C != 0, "trailing incomplete frame dropped");
                kani::cover!(len == 0, "empty");
                kani::cover!(true, "end");
            }
        };
    }
    interleaved!(interleaved_c1, 1);
    interleaved!(interleaved_c2, 2);
    interleaved!(interleaved_c3, 3);

    /// interleaved source with mono bare-sample frames
    #[kani::proof]
    #[kani::unwind(12)]
    pub fn interleaved_bare_sample() {
        let items: [u8; 4] = kani::any();
        let len = any_len(4);
        let mut s = signal::from_interleaved_samples_iter::<_, u8>(CountIter::new(items, len));
        for n in 0..6 {
            assert!(s.is_exhausted() == (n >= len));
            let f: u8 = s.next();
            assert!(f == if n < len { items[n] } else { 128 });
        }
        kani::cover!(true, "end");
    }
}

pub mod propagation {
    use super::*;
    const L: usize = 3;

    fn any_probe() -> Probe<i16, L> {
        let mut fr = [0i16; L];
        for i in 0..L {
            let v: i16 = kani::any();
            kani::assume(v >= -8000 && v <= 8000);
            fr[i] = v;
        }
        Probe::new(fr, any_len(L))
    }

    /// every two-input adaptor is exhausted as soon as either input is: until_exhausted yields exactly
    /// min(la, lb) frames and then stops for good
    #[kani::proof]
    #[kani::unwind(8)]
    pub fn add_amp_two_inputs() {
        let (a, b) = (any_probe(), any_probe());
        let min_ab = if a.len < b.len { a.len } else { b.len };
        let s = a.clone().add_amp(b.clone());
        assert!(s.is_exhausted() == (min_ab == 0));
        let mut it = s.until_exhausted();
        for n in 0..L + 2 {
            let r = it.next();
            if n < min_ab {
                assert!(r == Some(a.frame(n) + b.frame(n)));
            } else {
                assert!(r.is_none(), "exactly as many frames as the shortest source, then None for good");
            }
        }
        kani::cover!(a.len < b.len, "first source shorter");
        kani::cover!(b.len < a.len, "second source shorter");
        kani::cover!(min_ab == 0, "an empty source");
        kani::cover!(true, "end");
    }

    #[kani::proof]
    #[kani::unwind(8)]
    pub fn zip_map_two_inputs() {
        let (a, b) = (any_probe(), any_probe());
        let min_ab = if a.len < b.len { a.len } else { b.len };
        let mut it = a.clone().zip_map(b.clone(), |x: i16, y: i16| [x, y]).until_exhausted();
        for n in 0..L + 2 {
            let r = it.next();
            if n < min_ab {
                assert!(r == Some([a.frame(n), b.frame(n)]));
            } else {
                assert!(r.is_none());
            }
        }
        kani::cover!(a.len != b.len, "different lengths");
        kani::cover!(true, "end");
    }

    #[kani::proof]
    #[kani::unwind(8)]
    pub fn mul_amp_two_inputs() {
        let a = any_probe();
        let gains: Probe<f32, L> = Probe::new([0.5; L], any_len(L));
        let min_ag = if a.len < gains.len { a.len } else { gains.len };
        let mut it = a.clone().mul_amp(gains.clone()).until_exhausted();
        for n in 0..L + 2 {
            let r = it.next();
            assert!(r.is_some() == (n < min_ag));
        }
        kani::cover!(gains.len < a.len, "gain signal shorter");
        kani::cover!(true, "end");
    }

    /// length-preserving one-input adaptors forward exhaustion unchanged
    /// mul_hz combines a resampled source with a per-frame rate multiplier: exhausted as soon as the
    /// multiplier signal is, and otherwise only once the source is
    #[kani::proof]
    #[kani::unwind(8)]
    pub fn mul_hz_two_inputs() {
        use dasp_interpolate::floor::Floor;
        let src = any_probe();
        let lc = any_len(3);
        let ctl: Probe<f64, 3> = Probe::new([1.0, 1.0, 1.0], lc);
        let mut m = src.clone().mul_hz(Floor::new(0i16), ctl.clone());
        for n in 0..4 {
            if n >= lc {
                assert!(m.is_exhausted(), "a combining adaptor is exhausted as soon as any input is (rate multiplier)");
            } else if m.is_exhausted() {
                // at ratio 1 at most n source frames have been pulled before output n
                assert!(src.len <= n, "not exhausted while both inputs still have frames");
            }
            m.next();
        }
        let k = src.clone().mul_hz(Floor::new(0i16), ctl.clone()).until_exhausted().take(6).count();
        assert!(k <= lc, "until_exhausted stops no later than the shortest input");
        kani::cover!(lc < src.len, "multiplier shorter than the source");
        kani::cover!(src.len < lc, "source shorter than the multiplier");
        kani::cover!(true, "end");
    }

    #[kani::proof]
    #[kani::unwind(8)]
    pub fn one_input_adaptors() {
        let a = any_probe();
        let stack = a
            .clone()
            .map(|f: i16| f)
            .offset_amp(1)
            .scale_amp(1.0)
            .offset_amp_per_channel(0i16)
            .scale_amp_per_channel(1.0f32)
            .clip_amp(20000)
            .inspect(|_| ());
        let mut it = stack.until_exhausted();
        for n in 0..L + 2 {
            let r = it.next();
            if n < a.len {
                assert!(r == Some(a.frame(n) + 1));
            } else {
                assert!(r.is_none(), "length-preserving adaptors keep the length; None for good");
            }
        }
        // through a borrowed signal too
        let mut b = a.clone();
        let cnt = b.by_ref().until_exhausted().count();
        assert!(cnt == a.len && b.is_exhausted());
        kani::cover!(a.len == L, "full length");
        kani::cover!(true, "end");
    }

    /// a delay stays live while emitting its leading silence: d + l frames in total
    #[kani::proof]
    #[kani::unwind(10)]
    pub fn delay_extends() {
        let a = any_probe();
        let d: usize = kani::any();
        kani::assume(d <= 3);
        let mut s = a.clone().delay(d);
        for n in 0..d + L + 1 {
            assert!(s.is_exhausted() == (n >= d + a.len), "live during the silence, exhausted d + l frames in");
            let f = s.next();
            if n < d {
                assert!(f == 0);
            } else {
                assert!(f == a.frame(n - d));
            }
        }
        let cnt = a.clone().delay(d).until_exhausted().count();
        assert!(cnt == d + a.len, "yields d + l frames");
        kani::cover!(d == 3 && a.len == 0, "silence only");
        kani::cover!(true, "end");
    }

    /// take(n) yields exactly n frames; lift over a length-preserving adaptor yields the source length
    #[kani::proof]
    #[kani::unwind(10)]
    pub fn take_and_lift() {
        let a = any_probe();
        let n: usize = kani::any();
        kani::assume(n <= 5);
        let mut t = a.clone().take(n);
        assert!(t.len() == n && t.size_hint() == (n, Some(n)));
        for k in 0..7 {
            let r = t.next();
            if k < n {
                assert!(r == Some(a.frame(k)), "take passes frames through, equilibrium past the end");
            } else {
                assert!(r.is_none(), "take(n) yields exactly n frames");
            }
        }
        let items: [i16; L] = a.frames;
        let len = a.len;
        let mut lifted = signal::lift(CountIter::new(items, len), |s| s.offset_amp(2));
        for k in 0..L + 1 {
            let r = lifted.next();
            if k < len {
                assert!(r == Some(items[k] + 2));
            } else {
                assert!(r.is_none(), "lift yields exactly the iterator's length");
            }
        }
        kani::cover!(n > a.len, "take beyond the end");
        kani::cover!(true, "end");
    }

    /// interleaved-sample output: exactly frames x channels samples in channel order, then None
    #[kani::proof]
    #[kani::unwind(12)]
    pub fn into_interleaved_samples() {
        let items: [[i16; 2]; L] = kani::any();
        let len = any_len(L);
        let src: Probe<[i16; 2], L> = Probe::new(items, len);
        let mut it = src.clone().into_interleaved_samples().into_iter();
        for k in 0..2 * L + 2 {
            let s = it.next();
            if k < 2 * len {
                assert!(s == Some(items[k / 2][k % 2]), "frame-major, channel order");
            } else {
                assert!(s.is_none(), "None once the signal is exhausted, and again");
            }
        }
        // next_sample directly
        let mut is = src.into_interleaved_samples();
        let first = is.next_sample();
        assert!(first == if len > 0 { Some(items[0][0]) } else { None });
        kani::cover!(len == L, "full length");
        kani::cover!(len == 0, "empty");
        kani::cover!(true, "end");
    }

    /// exhaustion forwards through the rate/phase/RMS/envelope wrappers as well
    /// a clone of the interleaved-sample adaptor taken after ANY number of samples (mid-frame included)
    /// continues exactly where the original stands: frames x channels samples in total, then None
    #[kani::proof]
    #[kani::unwind(12)]
    pub fn interleaved_clone_at_any_point() {
        let items: [[i16; 2]; L] = kani::any();
        let len = any_len(L);
        let src: Probe<[i16; 2], L> = Probe::new(items, len);
        let mut orig = src.into_interleaved_samples();
        let taken: usize = kani::any();
        kani::assume(taken <= 2 * len);
        for k in 0..2 * L {
            if k < taken {
                assert!(orig.next_sample() == Some(items[k / 2][k % 2]));
            }
        }
        let mut cl = orig.clone();
        for k in 0..2 * L + 1 {
            let idx = taken + k;
            let s = cl.next_sample();
            if idx < 2 * len {
                assert!(s == Some(items[idx / 2][idx % 2]), "the clone yields the remaining samples in channel order");
            } else {
                assert!(s.is_none(), "exactly frames x channels samples before None");
            }
        }
        kani::cover!(taken % 2 == 1, "cloned in the middle of a frame");
        kani::cover!(taken == 2 * len && len > 0, "cloned at the very end");
        kani::cover!(true, "end");
    }

    #[kani::proof]
    #[kani::unwind(8)]
    pub fn forwarding_wrappers() {
        use dasp_signal::envelope::SignalEnvelope;
        use dasp_signal::rms::SignalRms;
        let a = any_probe();
        let hzs: Probe<f64, L> = Probe::new([440.0; L], any_len(L));
        let hz = signal::rate(44100.0).hz(hzs.clone());
        assert!(hz.is_exhausted() == (hzs.len == 0), "Hz is exhausted when its frequency signal is");
        let r = a.clone().rms(dasp_ring_buffer::Fixed::from([0.0f32; 2]));
        assert!(r.is_exhausted() == (a.len == 0));
        let e = a.clone().detect_envelope(dasp_envelope::Detector::<i16, _>::verif_with_gains(
            dasp_envelope::detect::Peak::positive_half_wave(), 0.5, 0.5, 0));
        assert!(e.is_exhausted() == (a.len == 0));
        // non-finite sources are never exhausted
        assert!(!signal::equilibrium::<i16>().is_exhausted());
        assert!(!signal::gen(|| 1i16).is_exhausted());
        assert!(!signal::rate(1.0).const_hz(1.0).is_exhausted());
        kani::cover!(a.len == 0, "exhausted from the start");
        kani::cover!(true, "end");
    }
}
