//! C01 — integer <-> integer sample conversion is exact power-of-two amplitude rescaling.
//!
//! Oracle: 128-bit integer arithmetic on (bits, signedness, raw) triples; shares no code with
//! dasp_sample::conv.  No loops: every verdict covers EVERY in-range source value.
use crate::common::IntFmt;
use dasp_sample::{conv, Sample, FromSample, ToSample, I24, I48, U24, U48};

/// amp(r) == amp(s) * 2^(bd-bs), floor when narrowing; r in range
fn check_rescale<S: IntFmt, D: IntFmt>(s: S, r: D) {
    let a = s.amp();
    let e = if D::BITS >= S::BITS { a << (D::BITS - S::BITS) } else { a >> (S::BITS - D::BITS) };
    assert!(r.in_range(), "result is a valid in-range value of the target format");
    assert!(r.amp() == e, "exact power-of-two rescaling (floor when narrowing)");
}

macro_rules! conv_pair {
    ($name:ident, $S:ty, $smod:ident, $f:ident, $D:ty, $dmod:ident, $back:ident) => {
        #[kani::proof]
        pub fn $name() {
            let s: $S = <$S as IntFmt>::any_val();
            let r: $D = conv::$smod::$f(s);
            check_rescale::<$S, $D>(s, r);
            // trait dispatch reaches the same function
            let r2: $D = s.to_sample::<$D>();
            let r3: $D = <$D as Sample>::from_sample(s);
            let r4: $D = <$D as FromSample<$S>>::from_sample_(s);
            let r5: $D = <$S as ToSample<$D>>::to_sample_(s);
            assert!(r2.raw() == r.raw() && r3.raw() == r.raw() && r4.raw() == r.raw() && r5.raw() == r.raw());
            // order preservation, asserted directly on a second arbitrary input
            let t: $S = <$S as IntFmt>::any_val();
            if s.raw() <= t.raw() {
                assert!(r.raw() <= conv::$smod::$f(t).raw(), "order is preserved");
            }
            // equilibrium and extremes
            if s.amp() == 0 {
                assert!(r.amp() == 0, "equilibrium maps to equilibrium");
            }
            if s.raw() == <$S as IntFmt>::min_raw() {
                assert!(r.raw() == <$D as IntFmt>::min_raw(), "minimum maps to minimum");
            }
            if s.raw() == <$S as IntFmt>::max_raw() && <$D as IntFmt>::BITS <= <$S as IntFmt>::BITS {
                assert!(r.raw() == <$D as IntFmt>::max_raw(), "maximum maps to maximum when narrowing");
            }
            // widening (or same width) is lossless: narrowing back is the identity
            if <$D as IntFmt>::BITS >= <$S as IntFmt>::BITS {
                let b: $S = conv::$dmod::$back(r);
                assert!(b.raw() == s.raw(), "widening is undone by narrowing back");
            }
            kani::cover!(s.amp() < 0, "negative amplitude");
            kani::cover!(s.amp() > 0, "positive amplitude");
            kani::cover!(true, "end");
        }
    };
}

macro_rules! conv_via {
    ($name:ident, $S:ty, $smod:ident, $f:ident, $D:ty, $dmod:ident; $({$M:ty, $mmod:ident, $mf:ident})*) => {
        /// converting through any intermediate at least as wide as the narrower endpoint
        /// gives the same result as converting directly
        #[kani::proof]
        pub fn $name() {
            let s: $S = <$S as IntFmt>::any_val();
            let direct: $D = conv::$smod::$f(s);
            $(
                let m: $M = conv::$smod::$mf(s);
                let via: $D = conv::$mmod::$f(m);
                assert!(via.raw() == direct.raw(), "conversion via an intermediate format agrees with the direct one");
            )*
            kani::cover!(s.amp() < 0, "negative amplitude");
            kani::cover!(true, "end");
        }
    };
}

pub mod pair {
    use super::*;
    include!("c01_pairs.in");
}
pub mod via {
    use super::*;
    include!("c01_vias.in");
}
