//! C15 — the 11/20/24/48-bit sample newtypes never silently leave their range.
//!
//! Run twice: in Kani's default dev profile (debug assertions + overflow panics ON: the
//! operators must panic on overflow — harness declares those panics as allowed and asserts that
//! every *returning* path delivers the exact in-range result, which forces every overflowing
//! operand pair onto a panicking path) and with debug assertions / overflow checks OFF
//! (`release`: operators must wrap modulo 2^bits into range).
use dasp_sample::types::{I11, I20, I24, I48, U11, U20, U24, U48};

const DEBUG: bool = cfg!(debug_assertions);

fn wrap_ref(exact: i128, bits: u32, min: i128) -> i128 {
    // the unique value in [min, min + 2^bits) congruent to `exact` modulo 2^bits
    let total = 1i128 << bits;
    (exact - min).rem_euclid(total) + min
}

macro_rules! custom_type {
    ($m:ident, $T:ident, $Rep:ty, $bits:expr, $min:expr, $max:expr, from_unwind: $fu:expr, from_bound: $fb:expr) => {
        pub mod $m {
            use super::*;
            const BITS: u32 = $bits;
            const MIN: i128 = $min;
            const MAX: i128 = $max;

            fn any_valid() -> $T {
                let v: $Rep = kani::any();
                match $T::new(v) {
                    Some(x) => x,
                    None => {
                        kani::assume(false);
                        unreachable!()
                    }
                }
            }

            #[kani::proof]
            pub fn new_and_order() {
                let v: $Rep = kani::any();
                let r = $T::new(v);
                let inr = MIN <= v as i128 && v as i128 <= MAX;
                assert!(r.is_some() == inr, "checked construction succeeds exactly for in-range values");
                if let Some(x) = r {
                    assert!(x.inner() == v);
                }
                let a = any_valid();
                let b = any_valid();
                assert!((a < b) == (a.inner() < b.inner()));
                assert!((a <= b) == (a.inner() <= b.inner()));
                assert!((a == b) == (a.inner() == b.inner()));
                assert!((a > b) == (a.inner() > b.inner()));
                assert!(a.cmp(&b) == a.inner().cmp(&b.inner()));
                assert!(a.partial_cmp(&b) == Some(a.inner().cmp(&b.inner())));
                kani::cover!(r.is_none() && (v as i128) < MIN, "below range");
                kani::cover!(r.is_none() && (v as i128) > MAX, "above range");
                kani::cover!(true, "end");
            }

            /// From<Rep> wraps modulo 2^bits into range
            #[kani::proof]
            #[kani::unwind($fu)]
            pub fn from_rep() {
                let v: $Rep = kani::any();
                kani::assume((v as i128) >= -($fb) && (v as i128) <= $fb);
                let r = $T::from(v);
                assert!(MIN <= r.inner() as i128 && r.inner() as i128 <= MAX, "in range");
                assert!(r.inner() as i128 == wrap_ref(v as i128, BITS, MIN), "congruent modulo 2^bits");
                kani::cover!((v as i128) > MAX, "wraps downwards");
                kani::cover!((v as i128) < MIN, "wraps upwards");
                kani::cover!(true, "end");
            }

            #[kani::proof]
            #[kani::unwind($fu)]
            pub fn add() {
                let a = any_valid();
                let b = any_valid();
                let exact = a.inner() as i128 + b.inner() as i128;
                let r = a + b;
                let ri = r.inner() as i128;
                assert!(MIN <= ri && ri <= MAX, "never returns a value outside [MIN, MAX]");
                if DEBUG {
                    assert!(ri == exact, "debug build: returned only when no overflow (else panicked)");
                } else {
                    assert!(ri == wrap_ref(exact, BITS, MIN), "release build: wrapped modulo 2^bits");
                    kani::cover!(exact > MAX, "overflow wraps");
                }
                kani::cover!(true, "end");
            }

            #[kani::proof]
            #[kani::unwind($fu)]
            pub fn sub() {
                let a = any_valid();
                let b = any_valid();
                let exact = a.inner() as i128 - b.inner() as i128;
                let r = a - b;
                let ri = r.inner() as i128;
                assert!(MIN <= ri && ri <= MAX, "never returns a value outside [MIN, MAX]");
                if DEBUG {
                    assert!(ri == exact, "debug build: returned only when no overflow (else panicked)");
                } else {
                    assert!(ri == wrap_ref(exact, BITS, MIN), "release build: wrapped modulo 2^bits");
                    kani::cover!(exact < MIN, "underflow wraps");
                }
                kani::cover!(true, "end");
            }
        }
    };
}

macro_rules! custom_mul {
    ($m:ident, $T:ident, $Rep:ty, $bits:expr, $min:expr, $max:expr, unwind: $u:expr, bound_b: $bb:expr) => {
        pub mod $m {
            use super::*;
            const BITS: u32 = $bits;
            const MIN: i128 = $min;
            const MAX: i128 = $max;
            #[kani::proof]
            #[kani::unwind($u)]
            pub fn mul() {
                let va: $Rep = kani::any();
                let vb: $Rep = kani::any();
                let (a, b) = match ($T::new(va), $T::new(vb)) {
                    (Some(a), Some(b)) => (a, b),
                    _ => {
                        kani::assume(false);
                        unreachable!()
                    }
                };
                // stated bound on the second factor (see specs): keeps the release-build wrap loop
                // and the bit-blasted multiplier within reach
                kani::assume((vb as i128) >= -($bb) && (vb as i128) <= $bb);
                let exact = va as i128 * vb as i128;
                let r = a * b;
                let ri = r.inner() as i128;
                assert!(MIN <= ri && ri <= MAX, "never returns a value outside [MIN, MAX]");
                if DEBUG {
                    assert!(ri == exact, "debug build: returned only when no overflow (else panicked)");
                } else {
                    assert!(ri == wrap_ref(exact, BITS, MIN), "release build: wrapped modulo 2^bits");
                    kani::cover!(exact > MAX || exact < MIN, "overflow wraps");
                }
                kani::cover!(true, "end");
            }
        }
    };
}

macro_rules! custom_neg {
    ($m:ident, $T:ident, $Rep:ty, $bits:expr, $min:expr, $max:expr) => {
        pub mod $m {
            use super::*;
            const BITS: u32 = $bits;
            const MIN: i128 = $min;
            const MAX: i128 = $max;
            #[kani::proof]
            pub fn neg() {
                let v: $Rep = kani::any();
                let a = match $T::new(v) {
                    Some(a) => a,
                    None => {
                        kani::assume(false);
                        unreachable!()
                    }
                };
                let exact = -(v as i128);
                let r = -a;
                let ri = r.inner() as i128;
                assert!(MIN <= ri && ri <= MAX, "never returns a value outside [MIN, MAX]");
                if DEBUG {
                    assert!(ri == exact, "debug build: returned only when no overflow (else panicked)");
                } else {
                    assert!(ri == wrap_ref(exact, BITS, MIN), "release build: wrapped modulo 2^bits");
                    kani::cover!(v as i128 == MIN, "negating MIN wraps");
                }
                kani::cover!(v as i128 == MAX, "negating MAX");
                kani::cover!(true, "end");
            }
        }
    };
}

custom_type!(i11, I11, i16, 11, -1024, 1023, from_unwind: 18, from_bound: 1i128 << 20);
custom_type!(u11, U11, i16, 11, 0, 2047, from_unwind: 18, from_bound: 1i128 << 20);
custom_type!(i20, I20, i32, 20, -524_288, 524_287, from_unwind: 34, from_bound: (1i128 << 25) - 1);
custom_type!(u20, U20, i32, 20, 0, 1_048_575, from_unwind: 34, from_bound: (1i128 << 25) - 1);
custom_type!(i24, I24, i32, 24, -8_388_608, 8_388_607, from_unwind: 131, from_bound: 1i128 << 40);
custom_type!(u24, U24, i32, 24, 0, 16_777_215, from_unwind: 131, from_bound: 1i128 << 40);
custom_type!(i48, I48, i64, 48, -140_737_488_355_328, 140_737_488_355_327, from_unwind: 34, from_bound: (1i128 << 53) - 1);
custom_type!(u48, U48, i64, 48, 0, 281_474_976_710_655, from_unwind: 34, from_bound: (1i128 << 53) - 1);

custom_mul!(mul_i11, I11, i16, 11, -1024, 1023, unwind: 18, bound_b: 1i128 << 20);
custom_mul!(mul_u11, U11, i16, 11, 0, 2047, unwind: 18, bound_b: 1i128 << 20);
custom_mul!(mul_i24, I24, i32, 24, -8_388_608, 8_388_607, unwind: 131, bound_b: 1i128 << 40);
custom_mul!(mul_u24, U24, i32, 24, 0, 16_777_215, unwind: 131, bound_b: 1i128 << 40);

custom_mul!(mul_i20, I20, i32, 20, -524_288, 524_287, unwind: 34, bound_b: 1i128 << 6);
custom_mul!(mul_u20, U20, i32, 20, 0, 1_048_575, unwind: 34, bound_b: 1i128 << 5);
custom_mul!(mul_i48, I48, i64, 48, -140_737_488_355_328, 140_737_488_355_327, unwind: 34, bound_b: 1i128 << 5);
custom_mul!(mul_u48, U48, i64, 48, 0, 281_474_976_710_655, unwind: 34, bound_b: 1i128 << 4);
// thorough tier: wider second factors / full ranges
custom_mul!(mul_i20_wide, I20, i32, 20, -524_288, 524_287, unwind: 2051, bound_b: 1i128 << 20);
custom_mul!(mul_u20_wide, U20, i32, 20, 0, 1_048_575, unwind: 2051, bound_b: 1i128 << 20);
custom_mul!(mul_i48_wide, I48, i64, 48, -140_737_488_355_328, 140_737_488_355_327, unwind: 1030, bound_b: 1i128 << 10);
custom_mul!(mul_u48_wide, U48, i64, 48, 0, 281_474_976_710_655, unwind: 1030, bound_b: 1i128 << 9);

custom_neg!(neg_i11, I11, i16, 11, -1024, 1023);
custom_neg!(neg_i24, I24, i32, 24, -8_388_608, 8_388_607);
custom_neg!(neg_i48, I48, i64, 48, -140_737_488_355_328, 140_737_488_355_327);

/// the widening From impls preserve the numeric value (and therefore land in range)
pub mod widen {
    use super::*;
    macro_rules! widen_prim {
        ($name:ident, $T:ident, $U:ty) => {
            #[kani::proof]
            pub fn $name() {
                let u: $U = kani::any();
                let r = $T::from(u);
                assert!(r.inner() as i128 == u as i128);
                assert!($T::new(r.inner()).is_some(), "in range");
                kani::cover!(true, "end");
            }
        };
    }
    macro_rules! widen_custom {
        ($name:ident, $T:ident, $U:ident, $URep:ty) => {
            #[kani::proof]
            pub fn $name() {
                let v: $URep = kani::any();
                let u = match $U::new(v) {
                    Some(u) => u,
                    None => {
                        kani::assume(false);
                        unreachable!()
                    }
                };
                let r = $T::from(u);
                assert!(r.inner() as i128 == v as i128);
                assert!($T::new(r.inner()).is_some(), "in range");
                kani::cover!(true, "end");
            }
        };
    }
    widen_prim!(i11_from_i8, I11, i8);
    widen_prim!(i11_from_u8, I11, u8);
    widen_prim!(i20_from_i8, I20, i8);
    widen_custom!(i20_from_i11, I20, I11, i16);
    widen_prim!(i20_from_i16, I20, i16);
    widen_prim!(i20_from_u8, I20, u8);
    widen_custom!(i20_from_u11, I20, U11, i16);
    widen_prim!(i20_from_u16, I20, u16);
    widen_prim!(i24_from_i8, I24, i8);
    widen_prim!(i24_from_i16, I24, i16);
    widen_custom!(i24_from_i20, I24, I20, i32);
    widen_prim!(i24_from_u8, I24, u8);
    widen_prim!(i24_from_u16, I24, u16);
    widen_custom!(i24_from_u20, I24, U20, i32);
    widen_prim!(i48_from_i8, I48, i8);
    widen_prim!(i48_from_i16, I48, i16);
    widen_custom!(i48_from_i20, I48, I20, i32);
    widen_custom!(i48_from_i24, I48, I24, i32);
    widen_prim!(i48_from_i32, I48, i32);
    widen_prim!(i48_from_u8, I48, u8);
    widen_prim!(i48_from_u16, I48, u16);
    widen_custom!(i48_from_u20, I48, U20, i32);
    widen_custom!(i48_from_u24, I48, U24, i32);
    widen_prim!(i48_from_u32, I48, u32);
    widen_prim!(u11_from_u8, U11, u8);
    widen_prim!(u20_from_u8, U20, u8);
    widen_prim!(u20_from_u16, U20, u16);
    widen_prim!(u24_from_u8, U24, u8);
    widen_prim!(u24_from_u16, U24, u16);
    widen_custom!(u24_from_u20, U24, U20, i32);
    widen_prim!(u48_from_u8, U48, u8);
    widen_prim!(u48_from_u16, U48, u16);
    widen_custom!(u48_from_u20, U48, U20, i32);
    widen_custom!(u48_from_u24, U48, U24, i32);
    widen_prim!(u48_from_u32, U48, u32);
}
