//! C04 — signal adaptors are pointwise, lock-step, one source frame per output frame.
use crate::sigprobe::Probe;
use dasp_frame::Frame;
use dasp_sample::Sample;
use dasp_signal::{self as signal, Signal};

const L: usize = 4;
const K: usize = 3; // next() calls per harness

fn any_len() -> usize {
    let l: usize = kani::any();
    kani::assume(l <= L);
    l
}
fn grid_gain() -> f32 {
    // gains k/64: short mantissas keep the symbolic products cheap
    let k: i8 = kani::any();
    k as f32 / 64.0
}

// ------------------------------------------------------------------------------------------
// mono i16
// ------------------------------------------------------------------------------------------
pub mod i16_mono {
    use super::*;
    type F = i16;
    fn any_probe() -> Probe<F, L> {
        let mut fr = [0i16; L];
        for i in 0..L {
            let v: i16 = kani::any();
            kani::assume(v >= -8000 && v <= 8000); // keeps the offsets below in range
            fr[i] = v;
        }
        Probe::new(fr, any_len())
    }

    #[kani::proof]
    #[kani::unwind(6)]
    pub fn map_zipmap_inspect() {
        let mut a = any_probe();
        let mut b = any_probe();
        let am = a.clone();
        {
            let mut m = (&mut a).map(|f: i16| f.wrapping_mul(3));
            for n in 0..K {
                assert!(m.next() == am.frame(n).wrapping_mul(3), "map output n == f(source frame n)");
            }
        }
        assert!(a.pulls == K, "map pulls exactly one frame per output");
        let mut a = any_probe();
        let a0 = a.clone();
        let b0 = b.clone();
        let mut seen = [0i16; K];
        let mut calls = 0usize;
        {
            let mut z = a.by_ref().inspect(|f| {
                seen[calls] = *f;
                calls += 1;
            }).zip_map(b.by_ref(), |x: i16, y: i16| if x < y { x } else { y });
            for n in 0..K {
                let y = z.next();
                let (xa, xb) = (a0.frame(n), b0.frame(n));
                assert!(y == if xa < xb { xa } else { xb }, "zip_map output n == f(a_n, b_n)");
            }
        }
        assert!(a.pulls == K && b.pulls == K, "one frame from each source per output");
        assert!(calls == K);
        for n in 0..K {
            assert!(seen[n] == a0.frame(n), "inspect sees frame n unchanged");
        }
        // borrowed signals resume exactly where the adaptor left off
        assert!(a.next() == a0.frame(K) && b.next() == b0.frame(K));
        kani::cover!(a0.len < K, "source shorter than the run (equilibrium padding)");
        kani::cover!(true, "end");
    }

    #[kani::proof]
    #[kani::unwind(6)]
    pub fn map_values() {
        let mut a = any_probe();
        let a0 = a.clone();
        let mut m = a.by_ref().map(|f: i16| [f, f.wrapping_neg()]);
        for n in 0..K {
            let y: [i16; 2] = m.next();
            assert!(y == [a0.frame(n), a0.frame(n).wrapping_neg()], "map output n == f(source frame n)");
        }
        kani::cover!(true, "end");
    }

    #[kani::proof]
    #[kani::unwind(6)]
    pub fn amp_adaptors() {
        let mut a = any_probe();
        let mut b = any_probe();
        let (a0, b0) = (a.clone(), b.clone());
        let off: i16 = kani::any();
        kani::assume(off >= -8000 && off <= 8000);
        let g = grid_gain();
        {
            let mut s = a.by_ref().add_amp(b.by_ref());
            for n in 0..K {
                assert!(s.next() == Frame::add_amp(a0.frame(n), b0.frame(n)), "add_amp is pointwise");
            }
        }
        assert!(a.pulls == K && b.pulls == K);
        {
            let mut s = a.by_ref().offset_amp(off);
            assert!(s.next() == a0.frame(K).offset_amp(off), "offset_amp resumes at frame K and is pointwise");
        }
        {
            let mut s = a.by_ref().offset_amp_per_channel(off);
            assert!(s.next() == Frame::add_amp(a0.frame(K + 1), off));
        }
        assert!(a.pulls == K + 2);
        let mut a = a0.clone();
        {
            let mut s = a.by_ref().scale_amp(g);
            for n in 0..2 {
                assert!(s.next() == a0.frame(n).scale_amp(g), "scale_amp is pointwise");
            }
        }
        {
            let mut s = a.by_ref().scale_amp_per_channel(g);
            assert!(s.next() == Frame::mul_amp(a0.frame(2), g));
        }
        assert!(a.pulls == 3);
        kani::cover!(g < 0.0, "negative gain");
        kani::cover!(true, "end");
    }

    #[kani::proof]
    #[kani::unwind(6)]
    pub fn mul_amp_signal() {
        let mut a = any_probe();
        let a0 = a.clone();
        let mut gains = [0.0f32; L];
        for i in 0..L {
            gains[i] = grid_gain();
        }
        let mut gp: Probe<f32, L> = Probe::new(gains, any_len());
        let g0 = gp.clone();
        {
            let mut s = a.by_ref().mul_amp(gp.by_ref());
            for n in 0..K {
                assert!(s.next() == Frame::mul_amp(a0.frame(n), g0.frame(n)), "mul_amp is pointwise");
            }
        }
        assert!(a.pulls == K && gp.pulls == K);
        kani::cover!(true, "end");
    }

    /// clip_amp limits each channel's signed amplitude to [-t, t]
    #[kani::proof]
    #[kani::unwind(6)]
    pub fn clip() {
        let mut fr = [0i16; L];
        for i in 0..L {
            fr[i] = kani::any();
        }
        let mut a: Probe<i16, L> = Probe::new(fr, any_len());
        let a0 = a.clone();
        let t: i16 = kani::any();
        kani::assume(t >= 0);
        {
            let mut s = a.by_ref().clip_amp(t);
            for n in 0..K {
                let x = a0.frame(n);
                let want = if x > t { t } else if x < -t { -t } else { x };
                assert!(s.next() == want, "clip_amp == clamp to [-t, t]");
            }
        }
        assert!(a.pulls == K);
        kani::cover!(true, "end");
    }

    /// delay(k): k equilibrium frames, then the source unchanged; no pull during the silence
    #[kani::proof]
    #[kani::unwind(8)]
    pub fn delay() {
        let mut a = any_probe();
        let a0 = a.clone();
        let d: usize = kani::any();
        kani::assume(d <= 3);
        let mut out = [0i16; 5];
        let mut pulls_after = [0usize; 5];
        {
            let mut s = a.by_ref().delay(d);
            for n in 0..5 {
                out[n] = s.next();
            }
        }
        for n in 0..5 {
            if n < d {
                assert!(out[n] == 0, "leading silence");
            } else {
                assert!(out[n] == a0.frame(n - d), "then the source unchanged");
            }
        }
        assert!(a.pulls == 5 - d, "no source frame is pulled while the delay emits its silence");
        kani::cover!(d == 3, "three frames of delay");
        kani::cover!(true, "end");
    }
}

// ------------------------------------------------------------------------------------------
// stereo u8 (offset-unsigned format: re-centred arithmetic)
// ------------------------------------------------------------------------------------------
pub mod u8_stereo {
    use super::*;
    type F = [u8; 2];
    fn any_probe() -> Probe<F, L> {
        let mut fr = [[128u8; 2]; L];
        for i in 0..L {
            let v: [u8; 2] = kani::any();
            kani::assume(v[0] >= 96 && v[0] <= 160 && v[1] >= 96 && v[1] <= 160);
            fr[i] = v;
        }
        Probe::new(fr, any_len())
    }

    #[kani::proof]
    #[kani::unwind(6)]
    pub fn amp_adaptors() {
        let mut a = any_probe();
        let a0 = a.clone();
        let mut offs = [[0i8; 2]; L];
        for i in 0..L {
            let v: [i8; 2] = kani::any();
            kani::assume(v[0] >= -32 && v[0] <= 32 && v[1] >= -32 && v[1] <= 32);
            offs[i] = v;
        }
        let mut b: Probe<[i8; 2], L> = Probe::new(offs, any_len());
        let b0 = b.clone();
        {
            let mut s = a.by_ref().add_amp(b.by_ref());
            for n in 0..K {
                assert!(s.next() == Frame::add_amp(a0.frame(n), b0.frame(n)), "add_amp is pointwise");
            }
        }
        assert!(a.pulls == K && b.pulls == K);
        let off: i8 = kani::any();
        kani::assume(off >= -32 && off <= 32);
        let per: [i8; 2] = [off, -off];
        let g = grid_gain();
        let gs: [f32; 2] = [g, 0.5];
        let mut a = a0.clone();
        {
            let mut s = a.by_ref().offset_amp(off).scale_amp(g);
            for n in 0..2 {
                assert!(s.next() == a0.frame(n).offset_amp(off).scale_amp(g), "nesting == composition of the pointwise functions");
            }
        }
        {
            let mut s = a.by_ref().offset_amp_per_channel(per).scale_amp_per_channel(gs);
            assert!(s.next() == Frame::mul_amp(Frame::add_amp(a0.frame(2), per), gs));
        }
        assert!(a.pulls == 3);
        kani::cover!(true, "end");
    }

    #[kani::proof]
    #[kani::unwind(6)]
    pub fn clip() {
        let mut fr = [[128u8; 2]; L];
        for i in 0..L {
            fr[i] = kani::any();
        }
        let mut a: Probe<F, L> = Probe::new(fr, any_len());
        let a0 = a.clone();
        let t: i8 = kani::any();
        kani::assume(t >= 0);
        {
            let mut s = a.by_ref().clip_amp(t);
            for n in 0..K {
                let y = s.next();
                let c: usize = kani::any();
                kani::assume(c < 2);
                // signed amplitude about 128, clamped to [-t, t], re-offset
                let amp = a0.frame(n)[c] as i16 - 128;
                let cl = if amp > t as i16 { t as i16 } else if amp < -(t as i16) { -(t as i16) } else { amp };
                assert!(y[c] as i16 == cl + 128, "clip_amp limits the signed amplitude to [-t, t]");
            }
        }
        assert!(a.pulls == K);
        kani::cover!(true, "end");
    }
}

// ------------------------------------------------------------------------------------------
// float frames
// ------------------------------------------------------------------------------------------
pub mod f32_stereo {
    use super::*;
    type F = [f32; 2];
    fn grid() -> f32 {
        let k: i16 = kani::any();
        kani::assume(k >= -4096 && k <= 4096);
        k as f32 / 4096.0
    }
    fn any_probe() -> Probe<F, L> {
        let mut fr = [[0.0f32; 2]; L];
        for i in 0..L {
            fr[i] = [grid(), grid()];
        }
        Probe::new(fr, any_len())
    }
    fn same(a: F, b: F) -> bool {
        a[0].to_bits() == b[0].to_bits() && a[1].to_bits() == b[1].to_bits()
    }

    #[kani::proof]
    #[kani::unwind(6)]
    pub fn amp_and_clip() {
        let mut a = any_probe();
        let mut b = any_probe();
        let (a0, b0) = (a.clone(), b.clone());
        // gain picked from constants: six symbolic x symbolic f32 products cost ~10 min
        let g: f32 = match kani::any::<u8>() % 4 { 0 => 1.0, 1 => 0.5, 2 => -0.5, _ => 0.25 };
        let t = grid();
        kani::assume(t >= 0.0);
        {
            let mut s = a.by_ref().scale_amp(g).add_amp(b.by_ref()).clip_amp(t);
            for n in 0..K {
                let y = s.next();
                let pre = Frame::add_amp(a0.frame(n).scale_amp(g), b0.frame(n));
                let c: usize = kani::any();
                kani::assume(c < 2);
                let want = if pre[c] > t { t } else if pre[c] < -t { -t } else { pre[c] };
                assert!(y[c] == want, "scale -> add -> clip composes pointwise");
            }
        }
        assert!(a.pulls == K && b.pulls == K, "every source is pulled once per output frame");
        kani::cover!(true, "end");
    }
}

// ------------------------------------------------------------------------------------------
// deeper stacks
// ------------------------------------------------------------------------------------------
pub mod stacks {
    use super::*;
    fn any_probe() -> Probe<i16, L> {
        let mut fr = [0i16; L];
        for i in 0..L {
            let v: i16 = kani::any();
            kani::assume(v >= -4000 && v <= 4000);
            fr[i] = v;
        }
        Probe::new(fr, any_len())
    }

    /// a.by_ref().scale_amp(g).add_amp(b.delay(d)).clip_amp(t), all parameters symbolic
    #[kani::proof]
    #[kani::unwind(8)]
    pub fn scale_add_delayed_clip() {
        let mut a = any_probe();
        let mut b = any_probe();
        let (a0, b0) = (a.clone(), b.clone());
        let g: f32 = match kani::any::<u8>() % 4 { 0 => 1.0, 1 => 0.5, 2 => -0.5, _ => 0.25 };
        let d: usize = kani::any();
        kani::assume(d <= 2);
        let t: i16 = kani::any();
        kani::assume(t >= 0);
        {
            let mut s = a.by_ref().scale_amp(g).add_amp(b.by_ref().delay(d)).clip_amp(t);
            for n in 0..4 {
                let y = s.next();
                let bd = if n < d { 0 } else { b0.frame(n - d) };
                let pre = Frame::add_amp(a0.frame(n).scale_amp(g), bd);
                let want = if pre > t { t } else if pre < -t { -t } else { pre };
                assert!(y == want, "the stack equals the composition of its pointwise functions");
            }
        }
        assert!(a.pulls == 4 && b.pulls == 4 - d);
        kani::cover!(d == 2, "delay of two");
        kani::cover!(true, "end");
    }

    /// tree: (a + b) zip-mapped with (c offset), then mapped
    #[kani::proof]
    #[kani::unwind(8)]
    pub fn tree_of_three_sources() {
        let mut a = any_probe();
        let mut b = any_probe();
        let mut c = any_probe();
        let (a0, b0, c0) = (a.clone(), b.clone(), c.clone());
        let off: i16 = kani::any();
        kani::assume(off >= -4000 && off <= 4000);
        {
            let mut s = a
                .by_ref()
                .add_amp(b.by_ref())
                .zip_map(c.by_ref().offset_amp(off), |x: i16, y: i16| [x, y])
                .map(|f: [i16; 2]| [f[1], f[0]]);
            for n in 0..K {
                let y = s.next();
                assert!(y == [c0.frame(n) + off, a0.frame(n) + b0.frame(n)], "tree == composition");
            }
        }
        assert!(a.pulls == K && b.pulls == K && c.pulls == K);
        kani::cover!(true, "end");
    }

    /// by_ref twice in a row: the second adaptor resumes where the first stopped
    #[kani::proof]
    #[kani::unwind(8)]
    pub fn by_ref_resumes() {
        let mut a = any_probe();
        let a0 = a.clone();
        let j: usize = kani::any();
        kani::assume(j <= 3);
        {
            let mut s = a.by_ref().offset_amp(1);
            for _ in 0..j {
                s.next();
            }
        }
        assert!(a.pulls == j);
        {
            let mut r: &mut Probe<i16, L> = &mut a;
            let mut s2 = (&mut r).map(|f: i16| f);
            assert!(s2.next() == a0.frame(j), "a borrowed signal resumes exactly where the adaptor left off");
        }
        assert!(a.next() == a0.frame(j + 1));
        kani::cover!(j == 3, "three frames consumed first");
        kani::cover!(true, "end");
    }
}
