#!/usr/bin/env python3
"""Authoring-time generator of the macro invocation tables in src/c01_int_conv.rs / c02 (the tables only
name types and functions; all semantics are in the hand-written generic checks)."""
FMTS = [  # (type, module, to_fn, bits, signed)
    ("i8", "i8", "to_i8", 8, True), ("i16", "i16", "to_i16", 16, True), ("I24", "i24", "to_i24", 24, True),
    ("i32", "i32", "to_i32", 32, True), ("I48", "i48", "to_i48", 48, True), ("i64", "i64", "to_i64", 64, True),
    ("u8", "u8", "to_u8", 8, False), ("u16", "u16", "to_u16", 16, False), ("U24", "u24", "to_u24", 24, False),
    ("u32", "u32", "to_u32", 32, False), ("U48", "u48", "to_u48", 48, False), ("u64", "u64", "to_u64", 64, False),
]
out = []
for (S, sm, sf, sb, ss) in FMTS:
    for (D, dm, df, db, ds) in FMTS:
        if S == D:
            continue
        out.append("conv_pair!(%s_%s, %s, %s, %s, %s, %s, %s);" % (sm, df, S, sm, df, D, dm, sf))
out.append("")
for (S, sm, sf, sb, ss) in FMTS:
    for (D, dm, df, db, ds) in FMTS:
        if S == D:
            continue
        mids = [(M, mm, mf) for (M, mm, mf, mb, ms) in FMTS if M not in (S, D) and mb >= min(sb, db)]
        body = " ".join("{%s, %s, %s}" % m for m in mids)
        out.append("conv_via!(via_%s_%s, %s, %s, %s, %s, %s; %s);" % (sm, df, S, sm, df, D, dm, body))
print("\n".join(out))
