//! NOT PART OF ANY CHECK (not compiled): a measured attempt at C09, kept so it can be continued.
//! Result (2026-10-04, Kani 0.68 / CBMC 6.11): already the N = 1 instance did not leave symbolic execution
//! within 16 min / 2.7 GB - every `Vec::push` on petgraph's DfsPostOrder stack and on Processor::inputs
//! drags the raw_vec growth/realloc paths into each of the nested unwound loop bodies.  C09 therefore stays
//! under not_applicable (DESIGN section 5 and 9.8).
//!
//! C09 — graph processing runs exactly the upstream subgraph, once each, inputs first.
//!
//! petgraph's own containers (`Graph`, `StableGraph`: Vec-backed, FixedBitSet visit maps) cannot be executed
//! symbolically here (measured, DESIGN §4 C09).  `dasp_graph::process` is however generic over petgraph's
//! graph *traits*, so the REAL `dasp_graph::process` / `Processor::process` and the REAL
//! `petgraph::visit::{DfsPostOrder, Reversed}` are driven over `MiniGraph`: an array-backed multigraph
//! container of N slots (adjacency = edge multiplicities, slots may be vacant like a StableGraph after
//! node removals) that implements exactly the traits `process` requires.  The whole edge-multiplicity matrix,
//! the vacancies and the output node are symbolic.
use core::marker::PhantomData;
use dasp_graph::{Buffer, Input, Node, NodeData, Processor};
use petgraph::data::{DataMap, DataMapMut};
use petgraph::visit::{Data, GraphBase, IntoNeighbors, IntoNeighborsDirected, VisitMap, Visitable};
use petgraph::Direction;

pub struct MiniGraph<T, const N: usize> {
    /// `None` = vacant slot (a removed node); vacant slots have no edges
    pub nodes: [Option<NodeData<T>>; N],
    /// `adj[a][b]` = number of parallel edges a -> b
    pub adj: [[u8; N]; N],
}

#[derive(Clone)]
pub struct MiniMap<const N: usize>(pub [bool; N]);
impl<const N: usize> Default for MiniMap<N> {
    fn default() -> Self {
        MiniMap([false; N])
    }
}
impl<const N: usize> VisitMap<usize> for MiniMap<N> {
    fn visit(&mut self, a: usize) -> bool {
        let first = !self.0[a];
        self.0[a] = true;
        first
    }
    fn is_visited(&self, a: &usize) -> bool {
        self.0[*a]
    }
}

impl<T, const N: usize> GraphBase for MiniGraph<T, N> {
    type NodeId = usize;
    type EdgeId = (usize, usize);
}
impl<T, const N: usize> Data for MiniGraph<T, N> {
    type NodeWeight = NodeData<T>;
    type EdgeWeight = ();
}
impl<T, const N: usize> DataMap for MiniGraph<T, N> {
    fn node_weight(&self, id: usize) -> Option<&NodeData<T>> {
        if id < N {
            self.nodes[id].as_ref()
        } else {
            None
        }
    }
    fn edge_weight(&self, _id: (usize, usize)) -> Option<&()> {
        None
    }
}
impl<T, const N: usize> DataMapMut for MiniGraph<T, N> {
    fn node_weight_mut(&mut self, id: usize) -> Option<&mut NodeData<T>> {
        if id < N {
            self.nodes[id].as_mut()
        } else {
            None
        }
    }
    fn edge_weight_mut(&mut self, _id: (usize, usize)) -> Option<&mut ()> {
        None
    }
}
impl<T, const N: usize> Visitable for MiniGraph<T, N> {
    type Map = MiniMap<N>;
    fn visit_map(&self) -> MiniMap<N> {
        MiniMap::default()
    }
    fn reset_map(&self, map: &mut MiniMap<N>) {
        map.0 = [false; N];
    }
}

/// neighbours of one node, each repeated once per parallel edge, ascending slot order
pub struct MiniNeighbors<const N: usize> {
    left: [u8; N],
    at: usize,
}
impl<const N: usize> Iterator for MiniNeighbors<N> {
    type Item = usize;
    fn next(&mut self) -> Option<usize> {
        while self.at < N {
            if self.left[self.at] > 0 {
                self.left[self.at] -= 1;
                return Some(self.at);
            }
            self.at += 1;
        }
        None
    }
}
impl<'a, T, const N: usize> IntoNeighbors for &'a MiniGraph<T, N> {
    type Neighbors = MiniNeighbors<N>;
    fn neighbors(self, a: usize) -> MiniNeighbors<N> {
        self.neighbors_directed(a, Direction::Outgoing)
    }
}
impl<'a, T, const N: usize> IntoNeighborsDirected for &'a MiniGraph<T, N> {
    type NeighborsDirected = MiniNeighbors<N>;
    fn neighbors_directed(self, n: usize, d: Direction) -> MiniNeighbors<N> {
        let mut left = [0u8; N];
        if n < N {
            let mut b = 0;
            while b < N {
                left[b] = match d {
                    Direction::Outgoing => self.adj[n][b],
                    Direction::Incoming => self.adj[b][n],
                };
                b += 1;
            }
        }
        MiniNeighbors { left, at: 0 }
    }
}

// ------------------------------------------------------------------------------------------------
// recording node
// ------------------------------------------------------------------------------------------------
pub const MAXN: usize = 4;
pub const MAXIN: usize = 8;
pub static mut CALLS: usize = 0;
/// position (1-based call number) at which node i ran; 0 = never
pub static mut POS: [usize; MAXN] = [0; MAXN];
pub static mut TIMES: [u8; MAXN] = [0; MAXN];
pub static mut NIN: [usize; MAXN] = [0; MAXN];
/// address of the buffers slice each input of node i referred to
pub static mut INPTR: [[usize; MAXIN]; MAXN] = [[0; MAXIN]; MAXN];
pub static mut OUTPTR: [usize; MAXN] = [0; MAXN];

pub struct Rec {
    pub id: usize,
}
impl Node for Rec {
    fn process(&mut self, inputs: &[Input], output: &mut [Buffer]) {
        unsafe {
            CALLS += 1;
            TIMES[self.id] = TIMES[self.id].saturating_add(1);
            POS[self.id] = CALLS;
            NIN[self.id] = inputs.len();
            OUTPTR[self.id] = output.as_ptr() as usize;
            let mut k = 0;
            while k < inputs.len() && k < MAXIN {
                INPTR[self.id][k] = inputs[k].buffers().as_ptr() as usize;
                k += 1;
            }
        }
    }
}

fn clear_log() {
    unsafe {
        CALLS = 0;
        POS = [0; MAXN];
        TIMES = [0; MAXN];
        NIN = [0; MAXN];
        INPTR = [[0; MAXIN]; MAXN];
        OUTPTR = [0; MAXN];
    }
}

/// arbitrary multigraph on N slots: multiplicities 0..=2 per ordered pair (self-loops included), arbitrary
/// vacancies (a vacant slot has no edges), every live node owns one buffer
fn any_graph<const N: usize>() -> MiniGraph<Rec, N> {
    let mut live = [true; N];
    let mut i = 0;
    while i < N {
        live[i] = kani::any();
        i += 1;
    }
    let mut adj = [[0u8; N]; N];
    let mut a = 0;
    while a < N {
        let mut b = 0;
        while b < N {
            let m: u8 = kani::any();
            kani::assume(m <= 2);
            adj[a][b] = if live[a] && live[b] { m } else { 0 };
            b += 1;
        }
        a += 1;
    }
    let nodes: [Option<NodeData<Rec>>; N] =
        core::array::from_fn(|i| if live[i] { Some(NodeData::new1(Rec { id: i })) } else { None });
    MiniGraph { nodes, adj }
}

/// reach[i] <=> i == target or there is a directed path i -> ... -> target  (reference, by N rounds of relaxation)
fn upstream<const N: usize>(adj: &[[u8; N]; N], target: usize) -> [bool; N] {
    let mut r = [false; N];
    r[target] = true;
    let mut round = 0;
    while round < N {
        let mut a = 0;
        while a < N {
            let mut b = 0;
            while b < N {
                if adj[a][b] > 0 && r[b] {
                    r[a] = true;
                }
                b += 1;
            }
            a += 1;
        }
        round += 1;
    }
    r
}

/// is there a directed cycle (self-loops included) inside the node set `r`?  (reference: transitive closure)
fn cyclic<const N: usize>(adj: &[[u8; N]; N], r: &[bool; N]) -> bool {
    let mut p = [[false; N]; N];
    let mut a = 0;
    while a < N {
        let mut b = 0;
        while b < N {
            p[a][b] = adj[a][b] > 0 && r[a] && r[b];
            b += 1;
        }
        a += 1;
    }
    let mut k = 0;
    while k < N {
        let mut a = 0;
        while a < N {
            let mut b = 0;
            while b < N {
                if p[a][k] && p[k][b] {
                    p[a][b] = true;
                }
                b += 1;
            }
            a += 1;
        }
        k += 1;
    }
    let mut any = false;
    let mut a = 0;
    while a < N {
        if p[a][a] {
            any = true;
        }
        a += 1;
    }
    any
}

fn check_call<const N: usize>(g: &MiniGraph<Rec, N>, target: usize) {
    let r = upstream(&g.adj, target);
    let acyclic = !cyclic(&g.adj, &r);
    let mut n = 0;
    while n < N {
        let times = unsafe { TIMES[n] };
        if r[n] {
            assert!(times == 1, "every node with a path to the output node, and the output node, runs exactly once");
        } else {
            assert!(times == 0, "no other node is invoked");
        }
        if r[n] {
            // one input per incoming edge from a DIFFERENT node, each referring to that neighbour's buffers
            let mut expect = 0usize;
            let mut b = 0;
            while b < N {
                if b != n {
                    expect += g.adj[b][n] as usize;
                }
                b += 1;
            }
            let nin = unsafe { NIN[n] };
            assert!(nin == expect, "exactly one input per incoming edge from a different node");
            let own = g.nodes[n].as_ref().unwrap().buffers.as_ptr() as usize;
            assert!(unsafe { OUTPTR[n] } == own, "the node is given its own buffers as output");
            let mut b = 0;
            while b < N {
                if b != n && g.adj[b][n] > 0 {
                    let pb = g.nodes[b].as_ref().unwrap().buffers.as_ptr() as usize;
                    let mut cnt = 0u8;
                    let mut k = 0;
                    while k < nin && k < MAXIN {
                        if unsafe { INPTR[n][k] } == pb {
                            cnt += 1;
                        }
                        k += 1;
                    }
                    assert!(cnt == g.adj[b][n], "each input refers to that neighbour's current output buffers");
                    if acyclic {
                        assert!(unsafe { POS[b] } < unsafe { POS[n] }, "acyclic upstream: a node runs after every node that feeds it");
                    }
                }
                b += 1;
            }
            let mut k = 0;
            while k < nin && k < MAXIN {
                assert!(unsafe { INPTR[n][k] } != own, "a node's own buffers are never presented to it as an input");
                k += 1;
            }
        }
        n += 1;
    }
}

macro_rules! c09_harness {
    ($name:ident, $n:expr, $unwind:expr) => {
        /// every multigraph on $n slots, every output node; the same Processor is then re-used for a second
        /// call on the same graph with another arbitrary output node (visit maps and input list must reset)
        #[kani::proof]
        #[kani::unwind($unwind)]
        pub fn $name() {
            const N: usize = $n;
            let mut g: MiniGraph<Rec, N> = any_graph::<N>();
            let mut p: Processor<MiniGraph<Rec, N>> = Processor::with_capacity(N);
            let t1: usize = kani::any();
            kani::assume(t1 < N && g.nodes[t1].is_some());
            clear_log();
            p.process(&mut g, t1);
            check_call(&g, t1);
            kani::cover!(unsafe { CALLS } == N, "the whole graph is upstream");
            kani::cover!(unsafe { CALLS } == 1 && N > 1, "only the output node runs");
            let t2: usize = kani::any();
            kani::assume(t2 < N && g.nodes[t2].is_some());
            clear_log();
            p.process(&mut g, t2);
            check_call(&g, t2);
            kani::cover!(t1 != t2 || N == 1, "second call with a different output node");
            core::mem::forget(g);
            core::mem::forget(p);
        }
    };
}

pub mod order {
    use super::*;
    c09_harness!(n1, 1, 8);
    c09_harness!(n2, 2, 12);
    c09_harness!(n3, 3, 16);
}

#[allow(dead_code)]
fn _unused(_: PhantomData<()>) {}
